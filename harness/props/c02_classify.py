"""Root-cause classification of level-2 failures (C02 / C10).

A failing (old schema, target, result, script) is attributed to a KNOWN engine
defect only when a predicate CONFIRMS that defect's cause on this very input —
never by the mere name of the field that differs.  Every differing object must
be explained by a confirmed cause; otherwise the failure is reported as
`unclassified` (an ordinary violation).

Causes (each documented at its predicate):
  reorder-bases-noop                 drop-adjacent-bases
  extending-after-inserts-before     computed-to-stored-descendant
  owned-after-ancestor-pointer-swap  alias-over-alias-stale
  errmessage-removed-empty-script    alias-scalar-misses-inherited-constraint
  subtype-constraint-loses-base      empty-alter-function (text route)
  drop-base-before-its-rename        annotation-inherited-fields-after-add-base
  constraint-finalexpr-rerendered-after-rename
"""
from __future__ import annotations

import re

DEFAULT_BASE = 'ObjectType std::Object'


# ---------------------------------------------------------------- structure
def struct_diff(d1: dict, d2: dict) -> dict:
    """{key: '+' (only in d2 = missing from the result) | '-' (only in d1) | set(differing fields)}"""
    out = {}
    for k in set(d1) | set(d2):
        if k not in d1:
            out[k] = '+'
        elif k not in d2:
            out[k] = '-'
        else:
            f = {fn for fn in set(d1[k]) | set(d2[k]) if d1[k].get(fn) != d2[k].get(fn)}
            if f:
                out[k] = f
    return out


def objmap(sc, schema) -> dict:
    return {sc._objname(schema, o): o for o in sc._iter_user_objects(schema)}


def owner_type(schema, obj):
    """the object / scalar type an object belongs to (itself for a type), else None"""
    from edb.schema import types as s_types
    seen = 0
    while obj is not None and seen < 10:
        seen += 1
        if isinstance(obj, s_types.Type):
            return obj
        nxt = None
        for getter in ('get_subject', 'get_source'):
            g = getattr(obj, getter, None)
            if g is not None:
                try:
                    nxt = g(schema)
                except Exception:
                    nxt = None
                if nxt is not None:
                    break
        obj = nxt
    return None


def _names(dump, key, field):
    v = dump.get(key, {}).get(field)
    return list(v[0]) if isinstance(v, list) and isinstance(v[0], list) else None


# ------------------------------------------------- rebase simulation (bases)
def delta_bases(old, new):
    """port of edb/schema/inheriting.py::delta_bases on names -> (removed, [(group, pos)])"""
    dropped = set(old) - set(new)
    common = [b for b in old if b not in dropped]
    added, j, added_set, acc = [], 0, set(), []
    if common:
        for base in new:
            if common[j] == base:
                if acc:
                    added.append((acc, ('BEFORE', common[j])))
                    acc = []
                j += 1
                if j >= len(common):
                    break
                continue
            acc.append(base)
            added_set.add(base)
    tail = acc + [b for b in new if b not in added_set and b not in common]
    if tail:
        added.append((tail, 'LAST'))
    return dropped, added


def apply_rebase(orig, removed, added, *, skip_bug=False, noreinsert_bug=False, after_bug=False):
    """`RebaseInheritingObject._compute_new_bases` with each KNOWN defect of the unchanged tree switchable:
    skip_bug       – `for b in bases: bases.remove(b)` mutates the list it iterates (the element after a removed
                     one is never visited: it survives, and is not recorded in existing_bases)
    noreinsert_bug – a base that is already present is filtered out of an add group instead of being moved
    after_bug      – AFTER uses the index of the reference itself (= BEFORE)"""
    bases = list(orig)
    if bases == [DEFAULT_BASE]:
        bases = []
    existing = set()
    if skip_bug:
        i = 0
        while i < len(bases):          # literal semantics of iterating a list that is being mutated
            b = bases[i]
            if b in removed:
                bases.remove(b)
            else:
                existing.add(b)
            i += 1
    else:
        bases = [b for b in bases if b not in removed]
        existing = set(bases)
    for grp, pos in added:
        ref = None
        if isinstance(pos, tuple):
            pos, ref = pos
        if noreinsert_bug:
            grp = [b for b in grp if b not in existing]
        else:
            for b in grp:              # move semantics
                if b in bases and b != ref:
                    bases.remove(b)
        if not pos or pos == 'LAST':
            idx = len(bases)
        elif pos == 'FIRST':
            idx = 0
        else:
            if ref not in bases:
                return None
            idx = bases.index(ref) + (1 if pos == 'AFTER' and not after_bug else 0)
        bases[idx:idx] = grp
    return bases or [DEFAULT_BASE]


FLAG_CAUSE = {'skip_bug': 'drop-adjacent-bases', 'noreinsert_bug': 'reorder-bases-noop',
              'after_bug': 'extending-after-inserts-before'}


def explain_bases(orig, removed, added, result, flags=('skip_bug', 'noreinsert_bug')):
    """smallest set of known defects under which the rebase machinery yields `result`; None if none does"""
    import itertools
    for n in range(0, len(flags) + 1):
        for sub in itertools.combinations(flags, n):
            if apply_rebase(orig, removed, added, **{f: True for f in sub}) == result:
                return [FLAG_CAUSE[f] for f in sub]
    return None


# ------------------------------------------------------------- classifiers
_EMPTY_ALTER_FUNCTION = re.compile(r'ALTER\s+FUNCTION\s+[^;{}]*\)\s*;', re.S)


def parseable(script: str) -> str:
    """the script without the body-less `ALTER FUNCTION f(...) ;` statements (a known defect of its own that would
    make the whole script unparseable)"""
    return _EMPTY_ALTER_FUNCTION.sub('', script or '')


class Case:
    def __init__(self, sc, a, b, r, script, da, db, dr):
        self.sc, self.a, self.b, self.r, self.script = sc, a, b, r, script or ''
        self.da, self.db, self.dr = da, db, dr
        self.sdiff = struct_diff(dr, db)
        self.oa, self.ob, self.or_ = objmap(sc, a), objmap(sc, b), objmap(sc, r)
        self._ast = None

    def obj(self, key):
        """(schema, object) for a dump key, preferring the target"""
        if key in self.ob:
            return self.b, self.ob[key]
        if key in self.or_:
            return self.r, self.or_[key]
        return None, None

    def script_alters(self):
        """{(type qualname, pointer shortname)} altered by nested ALTER LINK/PROPERTY in the script"""
        if self._ast is None:
            from edb.edgeql import parser as qlparser, ast as qlast
            res = set()
            try:
                for stmt in qlparser.parse_block(parseable(self.script)):
                    if isinstance(stmt, qlast.AlterObjectType):
                        tn = f'{stmt.name.module}::{stmt.name.name}'
                        for c in stmt.commands:
                            if isinstance(c, (qlast.AlterConcreteLink, qlast.AlterConcreteProperty)):
                                res.add((tn, c.name.name))
            except Exception:
                pass
            self._ast = res
        return self._ast


def subtree_keys(cs: Case, key):
    """differing keys that belong to the type `key` or one of its descendants (target and result)"""
    T = cs.ob[key]
    sub = {T} | set(T.descendants(cs.b))
    Tr = cs.or_.get(key)
    sub_r = ({Tr} | set(Tr.descendants(cs.r))) if Tr is not None else set()
    keys = set()
    for k2 in cs.sdiff:
        sch, o = cs.obj(k2)
        if o is None:
            continue
        ow = owner_type(sch, o)
        if ow is not None and (ow in sub or ow in sub_r):
            keys.add(k2)
    return keys


def c_bases(cs: Case):
    """reorder-bases-noop: the step only changes the ORDER of retained bases and the rebase leaves the old
    order (an already-present base named in `EXTENDING x BEFORE y` is filtered out instead of moved).
    drop-adjacent-bases: the step removes two bases that are adjacent in the old list and the second one
    survives (`for b in bases: bases.remove(b)`).  Both are confirmed by re-running a port of delta_bases +
    _compute_new_bases with exactly those defects switched on: the result must be reproduced EXACTLY."""
    out = {}
    for key, f in cs.sdiff.items():
        if not key.startswith('ObjectType ') or not isinstance(f, set) or 'bases' not in f:
            continue
        ab, bb, rb = _names(cs.da, key, 'bases'), _names(cs.db, key, 'bases'), _names(cs.dr, key, 'bases')
        if ab is None or bb is None or rb is None:
            continue
        removed, added = delta_bases([] if ab == [DEFAULT_BASE] else ab, [] if bb == [DEFAULT_BASE] else bb)
        causes = explain_bases(ab, removed, added, rb)
        if not causes:          # [] = the correct algorithm gives this result: not a rebase defect
            continue
        # consequences: everything that differs inside the subtree of this type
        keys = subtree_keys(cs, key)
        for c in causes:
            out.setdefault(c, set()).update(keys)
    return out


def c_computed_to_stored(cs: Case):
    """computed-to-stored-descendant: the differing pointer inherits (pointer ancestors, in the target) from a
    pointer that was computed in the old schema and is stored in the target; only its computed_fields /
    inherited_fields bookkeeping differs."""
    out = set()
    for key, f in cs.sdiff.items():
        if not isinstance(f, set) or not f <= {'computed_fields', 'inherited_fields'}:
            continue
        if key.split(' ')[0] not in ('Property', 'Link') or key not in cs.ob:
            continue
        p = cs.ob[key]
        for anc in p.get_ancestors(cs.b).objects(cs.b):
            k2 = cs.sc._objname(cs.b, anc)
            if k2 in cs.oa and cs.oa[k2].get_expr(cs.a) is not None and anc.get_expr(cs.b) is None:
                out.add(key)
                break
    return {'computed-to-stored-descendant': out} if out else {}


def c_owned(cs: Case):
    """owned-after-ancestor-pointer-swap: an inherited, non-owned pointer D.n ends up owned because the script
    ALTERs it explicitly, while in an ancestor T of D the step swaps pointer n with another pointer n2
    (their `required` flags are exchanged) and the script alters both T.n and T.n2."""
    from edb.schema import name as sn
    out = set()
    alters = cs.script_alters()
    for key, f in cs.sdiff.items():
        if f != {'owned'} or key.split(' ')[0] not in ('Property', 'Link') or key not in cs.ob:
            continue
        if cs.dr[key]['owned'][0] is not True or cs.db[key]['owned'][0] is not False:
            continue
        p = cs.ob[key]
        D = p.get_source(cs.b)
        if D is None:
            continue
        n = str(p.get_shortname(cs.b).name)
        if (str(D.get_name(cs.b)), n) not in alters:
            continue
        ok = False
        for T in D.get_ancestors(cs.b).objects(cs.b):
            tn = str(T.get_name(cs.b))
            if (tn, n) not in alters:
                continue
            Ta = cs.a.get(T.get_name(cs.b), default=None)
            if Ta is None:
                continue
            for (tn2, n2) in alters:
                if tn2 != tn or n2 == n:
                    continue
                try:
                    ra = {x: Ta.getptr(cs.a, sn.UnqualName(x)).get_required(cs.a) for x in (n, n2)}
                    rb = {x: T.getptr(cs.b, sn.UnqualName(x)).get_required(cs.b) for x in (n, n2)}
                except Exception:
                    continue
                if ra[n] != ra[n2] and ra[n] == rb[n2] and ra[n2] == rb[n]:
                    ok = True
        if ok:
            out.add(key)
    return {'owned-after-ancestor-pointer-swap': out} if out else {}


def c_alias_over_alias(cs: Case):
    """alias-over-alias-stale: the differing object is an alias type (or belongs to one) whose defining
    expression (in the target) refers to ANOTHER alias."""
    from edb.schema import expraliases as s_aliases
    out = set()
    for key in cs.sdiff:
        sch, o = cs.obj(key)
        if o is None:
            continue
        ow = owner_type(sch, o)
        if ow is None:
            continue
        owb = cs.b.get(ow.get_name(sch), default=None)
        if owb is None:
            continue
        e = owb.get_expr(cs.b) if hasattr(owb, 'get_expr') else None
        if e is None or e.refs is None:
            continue
        if any(isinstance(x, s_aliases.Alias) for x in e.refs.objects(cs.b)):
            out.add(key)
    return {'alias-over-alias-stale': out} if out else {}


def c_errmessage(cs: Case):
    """errmessage-removed-empty-script: the step removes an explicit errmessage from a constraint (it is inherited
    in the target, was not in the old schema) and the computed script never mentions errmessage."""
    out = set()
    if 'errmessage' in cs.script.lower():
        return {}
    for key, f in cs.sdiff.items():
        if not key.startswith('Constraint ') or not isinstance(f, set) or not f <= {'errmessage', 'inherited_fields'}:
            continue
        ia, ib = _names(cs.da, key, 'inherited_fields'), _names(cs.db, key, 'inherited_fields')
        if ia is not None and ib is not None and 'errmessage' in ib and 'errmessage' not in ia:
            out.add(key)
    return {'errmessage-removed-empty-script': out} if out else {}


def c_alias_scalar(cs: Case):
    """alias-scalar-misses-inherited-constraint: an alias that is a scalar type (expr set) whose base scalar carries
    constraints; exactly its `constraints` and the constraint objects on it are missing in the result."""
    from edb.schema import scalars as s_scalars
    out = set()
    for key, f in cs.sdiff.items():
        if not key.startswith('ScalarType ') or f != {'constraints'} or key not in cs.ob:
            continue
        S = cs.ob[key]
        if S.get_expr(cs.b) is None:
            continue
        if not any(isinstance(x, s_scalars.ScalarType) and len(x.get_constraints(cs.b)) > 0
                   for x in S.get_bases(cs.b).objects(cs.b)):
            continue
        out.add(key)
        for k2, f2 in cs.sdiff.items():
            if f2 == '+' and k2.startswith('Constraint ') and k2 in cs.ob and cs.ob[k2].get_subject(cs.b) == S:
                out.add(k2)
    return {'alias-scalar-misses-inherited-constraint': out} if out else {}


def c_constraint_base(cs: Case):
    """subtype-constraint-loses-base: a constraint on type N ends with bases [std::constraint]; the step dropped a
    constraint with the same short name and subject expression from an ancestor of N."""
    out = set()
    for key, f in cs.sdiff.items():
        if not key.startswith('Constraint ') or not isinstance(f, set) or 'bases' not in f:
            continue
        if key not in cs.ob or _names(cs.dr, key, 'bases') != ['Constraint std::constraint']:
            continue
        c = cs.ob[key]
        N = c.get_subject(cs.b)
        Na = cs.a.get(N.get_name(cs.b), default=None) if N is not None else None
        if Na is None or not hasattr(Na, 'get_ancestors'):
            continue
        sx = c.get_subjectexpr(cs.b)
        sig = (str(c.get_shortname(cs.b)), sx.text if sx else None)

        def has(schema, T):
            for cc in T.get_constraints(schema).objects(schema):
                e = cc.get_subjectexpr(schema)
                if (str(cc.get_shortname(schema)), e.text if e else None) == sig:
                    return True
            return False
        for P in Na.get_ancestors(cs.a).objects(cs.a):
            Pb = cs.b.get(P.get_name(cs.a), default=None)
            if has(cs.a, P) and Pb is not None and hasattr(Pb, 'get_constraints') and not has(cs.b, Pb):
                out.add(key)
                break
    return {'subtype-constraint-loses-base': out} if out else {}


def script_events(cs: Case):
    """[('drop', type, base) | ('rename', old, new)] in script order (object types only)"""
    from edb.edgeql import parser as qlparser, ast as qlast
    ev = []
    try:
        for stmt in qlparser.parse_block(parseable(cs.script)):
            if not isinstance(stmt, qlast.AlterObjectType):
                continue
            tn = f'{stmt.name.module}::{stmt.name.name}'
            for c in stmt.commands:
                if isinstance(c, qlast.AlterDropInherit):
                    for b in c.bases:
                        mt = b.maintype
                        ev.append(('drop', tn, f'{mt.module}::{mt.name}'))
                elif isinstance(c, qlast.Rename):
                    ev.append(('rename', tn, f'{c.new_name.module}::{c.new_name.name}'))
    except Exception:
        pass
    return ev


def c_drop_before_rename(cs: Case):
    """drop-base-before-its-rename: a base that the step both renames/moves and drops from T survives, because the
    script says `DROP EXTENDING <new name>` BEFORE the `RENAME TO <new name>` statement (script AST order)."""
    out = set()
    ev = script_events(cs)
    for key, f in cs.sdiff.items():
        if not key.startswith('ObjectType ') or not isinstance(f, set) or 'bases' not in f or key not in cs.ob:
            continue
        bb, rb = _names(cs.db, key, 'bases'), _names(cs.dr, key, 'bases')
        if bb is None or rb is None:
            continue
        extras = [x for x in rb if x not in bb]
        rest = [x for x in rb if x in bb] or [DEFAULT_BASE]
        if not extras or rest != bb:
            continue
        tn = key.split(' ', 1)[1]
        ok = True
        for e in extras:
            n = e.split(' ', 1)[1]
            di = [i for i, x in enumerate(ev) if x == ('drop', tn, n)]
            ri = [i for i, x in enumerate(ev) if x[0] == 'rename' and x[2] == n]
            if not (di and ri and min(di) < min(ri)):
                ok = False
        if ok:
            out |= subtree_keys(cs, key)
    return {'drop-base-before-its-rename': out} if out else {}


def c_annotation_add_base(cs: Case):
    """annotation-inherited-fields-after-add-base: the type gains (in this step) a base that carries a value of the
    same INHERITABLE annotation; only `inherited_fields` of the type's own annotation value differs."""
    out = set()
    for key, f in cs.sdiff.items():
        if not key.startswith('AnnotationValue ') or f != {'inherited_fields'} or key not in cs.ob:
            continue
        av = cs.ob[key]
        U = av.get_subject(cs.b)
        ann = av.get_annotation(cs.b)
        if U is None or not hasattr(U, 'get_bases') or not ann.get_inheritable(cs.b):
            continue
        Ua = cs.a.get(U.get_name(cs.b), default=None)
        if Ua is None:
            continue
        old = {str(x.get_name(cs.a)) for x in Ua.get_bases(cs.a).objects(cs.a)}
        for P in U.get_bases(cs.b).objects(cs.b):
            if str(P.get_name(cs.b)) in old:
                continue
            for Q in [P, *P.get_ancestors(cs.b).objects(cs.b)]:
                if any(x.get_annotation(cs.b) == ann for x in Q.get_annotations(cs.b).objects(cs.b)):
                    out.add(key)
    return {'annotation-inherited-fields-after-add-base': out} if out else {}


def _norm_expr(text):
    from edb.edgeql import parser as qlparser, codegen as qlcodegen
    return qlcodegen.generate_source(qlparser.parse_fragment(text))


def c_finalexpr(cs: Case):
    """constraint-finalexpr-rerendered-after-rename: only the TEXT of a constraint's finalexpr differs, both texts
    normalise to the same source (redundant parentheses), and the step renames an ancestor of the subject type."""
    out = set()
    renamed = {x[2] for x in script_events(cs) if x[0] == 'rename'}
    for key, f in cs.sdiff.items():
        if not key.startswith('Constraint ') or f != {'finalexpr'} or key not in cs.ob:
            continue
        try:
            tr, tb = cs.dr[key]['finalexpr'][0]['text'], cs.db[key]['finalexpr'][0]['text']
            same = _norm_expr(tr) == _norm_expr(tb)
        except Exception:
            same = False
        ow = owner_type(cs.b, cs.ob[key])
        if not same or ow is None or not hasattr(ow, 'get_ancestors'):
            continue
        if any(str(x.get_name(cs.b)) in renamed for x in ow.get_ancestors(cs.b).objects(cs.b)):
            out.add(key)
    return {'constraint-finalexpr-rerendered-after-rename': out} if out else {}


CLASSIFIERS = (c_bases, c_drop_before_rename, c_annotation_add_base, c_finalexpr, c_computed_to_stored, c_owned,
               c_alias_over_alias, c_errmessage, c_alias_scalar, c_constraint_base)


LAST_ERROR = [None]


def classify(sc, a, b, r, script, da, db, dr):
    """-> sorted list of confirmed causes when EVERY differing object is explained, else None
    (an exception inside a predicate also gives None = unclassified; it is kept in LAST_ERROR)"""
    LAST_ERROR[0] = None
    try:
        cs = Case(sc, a, b, r, script, da, db, dr)
        if not cs.sdiff:
            return None
        explained, causes = set(), set()
        for fn in CLASSIFIERS:
            for cause, keys in fn(cs).items():
                if keys:
                    causes.add(cause)
                    explained |= keys
        if causes and set(cs.sdiff) <= explained:
            return sorted(causes)
    except Exception as e:
        LAST_ERROR[0] = f'{type(e).__name__}: {e}'[:300]
        return None
    return None


EMPTY_ALTER_FUNCTION = re.compile(r'ALTER\s+FUNCTION\s+[^;{}]*\)\s*;', re.S)


def classify_text_error(script: str, err: BaseException):
    """empty-alter-function: the script contains `ALTER FUNCTION f(...) ;` with no body and the parser rejects it"""
    if type(err).__name__ == 'EdgeQLSyntaxError' and EMPTY_ALTER_FUNCTION.search(script or ''):
        return ['empty-alter-function']
    return None
