"""Root-cause classification of level-2 failures (C02 / C10).

A failing (old schema, target, result, script) is attributed to a KNOWN engine
defect only when a predicate CONFIRMS that defect's cause on this very input —
never by the mere name of the field that differs.  Every differing object must
be explained by a confirmed cause; otherwise the failure is reported as
`unclassified` (an ordinary violation).

Causes (each documented at its predicate):
  reorder-bases-noop                 drop-adjacent-bases
  extending-after-inserts-before     computed-to-stored-descendant
  owned-after-ancestor-pointer-swap  alias-over-alias-stale
  errmessage-removed-empty-script    alias-scalar-misses-inherited-constraint
  subtype-constraint-loses-base      empty-alter-function (text route)
  drop-base-before-its-rename        annotation-inherited-fields-after-add-base
  constraint-finalexpr-rerendered-after-rename
"""
from __future__ import annotations

import re

DEFAULT_BASE = 'ObjectType std::Object'


# ---------------------------------------------------------------- structure
def _val(v):
    """the VALUE part of a dump entry `[value, explicitly_set]` (the flag alone is not a difference: an explicitly
    stored value equal to the effective inherited/default value is not observable and delta_schemas ignores it)"""
    return v[0] if isinstance(v, list) and len(v) == 2 and (v[1] is None or isinstance(v[1], bool)) else v


def value_dump(d: dict) -> dict:
    return {k: {fn: _val(v) for fn, v in flds.items()} for k, flds in d.items()}


def struct_diff(d1: dict, d2: dict) -> dict:
    """{key: '+' (only in d2 = missing from the result) | '-' (only in d1) | set(differing fields)}"""
    out = {}
    for k in set(d1) | set(d2):
        if k not in d1:
            out[k] = '+'
        elif k not in d2:
            out[k] = '-'
        else:
            f = {fn for fn in set(d1[k]) | set(d2[k]) if _val(d1[k].get(fn)) != _val(d2[k].get(fn))}
            if f:
                out[k] = f
    return out


def objmap(sc, schema) -> dict:
    return {sc._objname(schema, o): o for o in sc._iter_user_objects(schema)}


def owner_type(schema, obj):
    """the object / scalar type an object belongs to (itself for a type), else None"""
    from edb.schema import types as s_types
    seen = 0
    while obj is not None and seen < 10:
        seen += 1
        if isinstance(obj, s_types.Type):
            return obj
        nxt = None
        for getter in ('get_subject', 'get_source'):
            g = getattr(obj, getter, None)
            if g is not None:
                try:
                    nxt = g(schema)
                except Exception:
                    nxt = None
                if nxt is not None:
                    break
        obj = nxt
    return None


def _names(dump, key, field):
    v = dump.get(key, {}).get(field)
    return list(v[0]) if isinstance(v, list) and isinstance(v[0], list) else None


# ------------------------------------------------- rebase simulation (bases)
def delta_bases(old, new):
    """port of edb/schema/inheriting.py::delta_bases on names -> (removed, [(group, pos)])"""
    dropped = set(old) - set(new)
    common = [b for b in old if b not in dropped]
    added, j, added_set, acc = [], 0, set(), []
    if common:
        for base in new:
            if common[j] == base:
                if acc:
                    added.append((acc, ('BEFORE', common[j])))
                    acc = []
                j += 1
                if j >= len(common):
                    break
                continue
            acc.append(base)
            added_set.add(base)
    tail = acc + [b for b in new if b not in added_set and b not in common]
    if tail:
        added.append((tail, 'LAST'))
    return dropped, added


def apply_rebase(orig, removed, added, *, skip_bug=False, noreinsert_bug=False, after_bug=False):
    """`RebaseInheritingObject._compute_new_bases` with each KNOWN defect of the unchanged tree switchable:
    skip_bug       – `for b in bases: bases.remove(b)` mutates the list it iterates (the element after a removed
                     one is never visited: it survives, and is not recorded in existing_bases)
    noreinsert_bug – a base that is already present is filtered out of an add group instead of being moved
    after_bug      – AFTER uses the index of the reference itself (= BEFORE)"""
    bases = list(orig)
    if bases == [DEFAULT_BASE]:
        bases = []
    existing = set()
    if skip_bug:
        i = 0
        while i < len(bases):          # literal semantics of iterating a list that is being mutated
            b = bases[i]
            if b in removed:
                bases.remove(b)
            else:
                existing.add(b)
            i += 1
    else:
        bases = [b for b in bases if b not in removed]
        existing = set(bases)
    for grp, pos in added:
        ref = None
        if isinstance(pos, tuple):
            pos, ref = pos
        if noreinsert_bug:
            grp = [b for b in grp if b not in existing]
        else:
            for b in grp:              # move semantics
                if b in bases and b != ref:
                    bases.remove(b)
        if not pos or pos == 'LAST':
            idx = len(bases)
        elif pos == 'FIRST':
            idx = 0
        else:
            if ref not in bases:
                return None
            idx = bases.index(ref) + (1 if pos == 'AFTER' and not after_bug else 0)
        bases[idx:idx] = grp
    return bases or [DEFAULT_BASE]


FLAG_CAUSE = {'skip_bug': 'drop-adjacent-bases', 'noreinsert_bug': 'reorder-bases-noop',
              'after_bug': 'extending-after-inserts-before'}


def explain_bases(orig, removed, added, result, flags=('skip_bug', 'noreinsert_bug')):
    """smallest set of known defects under which the rebase machinery yields `result`; None if none does"""
    import itertools
    for n in range(0, len(flags) + 1):
        for sub in itertools.combinations(flags, n):
            if apply_rebase(orig, removed, added, **{f: True for f in sub}) == result:
                return [FLAG_CAUSE[f] for f in sub]
    return None


# ------------------------------------------------------------- classifiers
_EMPTY_ALTER_FUNCTION = re.compile(r'ALTER\s+FUNCTION\s+[^;{}]*\)\s*;', re.S)
_ANNOTATION_SET_OWNED_STMT = re.compile(r'ALTER\s+ANNOTATION\s+[\w:]+\s+SET\s+OWNED\s*;', re.I)


def parseable(script: str) -> str:
    """the script without the body-less `ALTER FUNCTION f(...) ;` and the `ALTER ANNOTATION x SET OWNED;` statements
    (known defects of their own that would make the whole script unparseable)"""
    return _ANNOTATION_SET_OWNED_STMT.sub('', _EMPTY_ALTER_FUNCTION.sub('', script or ''))


class Case:
    def __init__(self, sc, a, b, r, script, da, db, dr):
        self.sc, self.a, self.b, self.r, self.script = sc, a, b, r, script or ''
        self.da, self.db, self.dr = da, db, dr
        self.sdiff = struct_diff(dr, db)
        self.oa, self.ob, self.or_ = objmap(sc, a), objmap(sc, b), objmap(sc, r)
        self._ast = None
        self._resets = {}

    def obj(self, key):
        """(schema, object) for a dump key, preferring the target"""
        if key in self.ob:
            return self.b, self.ob[key]
        if key in self.or_:
            return self.r, self.or_[key]
        return None, None

    def script_alters(self):
        """{(type qualname, pointer shortname)} altered by nested ALTER LINK/PROPERTY in the script"""
        if self._ast is None:
            from edb.edgeql import parser as qlparser, ast as qlast
            res = set()
            try:
                for stmt in qlparser.parse_block(parseable(self.script)):
                    if isinstance(stmt, qlast.AlterObjectType):
                        tn = f'{stmt.name.module}::{stmt.name.name}'
                        for c in stmt.commands:
                            if isinstance(c, (qlast.AlterConcreteLink, qlast.AlterConcreteProperty)):
                                res.add((tn, c.name.name))
                                for sub in c.commands:
                                    if isinstance(sub, qlast.SetField):
                                        nm = sub.name
                                        if nm == 'owned' and str(getattr(sub.value, 'value', '')).lower() == 'false':
                                            nm = 'owned:drop'
                                        self._resets.setdefault((tn, c.name.name), set()).add(
                                            (nm, sub.value is None))
            except Exception:
                pass
            self._ast = res
        return self._ast


def subtree_keys(cs: Case, key):
    """differing keys that belong to the type `key` or one of its descendants (target and result)"""
    T = cs.ob[key]
    sub = {T} | set(T.descendants(cs.b))
    Tr = cs.or_.get(key)
    sub_r = ({Tr} | set(Tr.descendants(cs.r))) if Tr is not None else set()
    keys = set()
    for k2 in cs.sdiff:
        sch, o = cs.obj(k2)
        if o is None:
            continue
        ow = owner_type(sch, o)
        if ow is not None and (ow in sub or ow in sub_r):
            keys.add(k2)
    return keys


def c_bases(cs: Case):
    """reorder-bases-noop: the step only changes the ORDER of retained bases and the rebase leaves the old
    order (an already-present base named in `EXTENDING x BEFORE y` is filtered out instead of moved).
    drop-adjacent-bases: the step removes two bases that are adjacent in the old list and the second one
    survives (`for b in bases: bases.remove(b)`).  Both are confirmed by re-running a port of delta_bases +
    _compute_new_bases with exactly those defects switched on: the result must be reproduced EXACTLY."""
    out = {}
    for key, f in cs.sdiff.items():
        if not key.startswith('ObjectType ') or not isinstance(f, set) or 'bases' not in f:
            continue
        ab, bb, rb = _names(cs.da, key, 'bases'), _names(cs.db, key, 'bases'), _names(cs.dr, key, 'bases')
        if ab is None or bb is None or rb is None:
            continue
        removed, added = delta_bases([] if ab == [DEFAULT_BASE] else ab, [] if bb == [DEFAULT_BASE] else bb)
        causes = explain_bases(ab, removed, added, rb)
        if not causes:          # [] = the correct algorithm gives this result: not a rebase defect
            continue
        # consequences: everything that differs inside the subtree of this type
        keys = subtree_keys(cs, key)
        for c in causes:
            out.setdefault(c, set()).update(keys)
    return out


def _ptr_desc_keys(cs: Case, p, allowed):
    """differing keys of pointers that inherit (in the target or the result) from pointer `p` and differ only in `allowed`"""
    out = set()
    name = cs.sc._objname(cs.b, p)
    for k2, f2 in cs.sdiff.items():
        if k2.split(' ')[0] not in ('Property', 'Link') or not isinstance(f2, set) or not f2 <= allowed:
            continue
        for sch, om in ((cs.b, cs.ob), (cs.r, cs.or_)):
            o2 = om.get(k2)
            if o2 is not None and any(cs.sc._objname(sch, x) == name for x in o2.get_ancestors(sch).objects(sch)):
                out.add(k2)
    return out


def c_owned(cs: Case):
    """owned-after-explicit-alter-of-inherited-pointer: an inherited pointer D.n that is NOT owned in the target (nor
    in the old schema, unless the name now denotes another object) ends up owned=True, and the script contains an explicit `ALTER TYPE D { ALTER LINK|PROPERTY
    n {…} }` (confirmed on the script AST): applying an ALTER to an inherited pointer makes it owned.  The
    inherited pointers below it may then differ in the inherited bookkeeping only."""
    out = set()
    alters = cs.script_alters()
    for key, f in cs.sdiff.items():
        if not isinstance(f, set) or 'owned' not in f or key.split(' ')[0] not in ('Property', 'Link'):
            continue
        if key not in cs.ob or not f <= {'owned', 'required', 'inherited_fields'}:
            continue
        if _val(cs.dr[key]['owned']) is not True or _val(cs.db[key]['owned']) is not False:
            continue
        p = cs.ob[key]
        D = p.get_source(cs.b)
        if D is None or (str(D.get_name(cs.b)), str(p.get_shortname(cs.b).name)) not in alters:
            continue
        out.add(key)
        out |= _ptr_desc_keys(cs, p, {'inherited_fields', 'required', 'owned'})
    return {'owned-after-explicit-alter-of-inherited-pointer': out} if out else {}


def c_computed_status(cs: Case):
    """computed-to-stored-descendant / stored-to-computed-descendant: the differing pointer inherits (pointer ancestors,
    in the target) from a pointer whose computed status changed in this step; only its computed_fields /
    inherited_fields bookkeeping differs."""
    out = {}
    for key, f in cs.sdiff.items():
        if not isinstance(f, set) or not f <= {'computed_fields', 'inherited_fields'}:
            continue
        if key.split(' ')[0] not in ('Property', 'Link') or key not in cs.ob:
            continue
        p = cs.ob[key]
        for anc in p.get_ancestors(cs.b).objects(cs.b):
            k2 = cs.sc._objname(cs.b, anc)
            if k2 not in cs.oa:
                continue
            ea, eb = cs.oa[k2].get_expr(cs.a), anc.get_expr(cs.b)
            if ea is not None and eb is None:
                out.setdefault('computed-to-stored-descendant', set()).add(key)
                break
            if ea is None and eb is not None:
                out.setdefault('stored-to-computed-descendant', set()).add(key)
                break
    return out


def c_abstract_base_kept(cs: Case):
    """pointer-keeps-abstract-base-after-drop-base: an overloaded pointer D.n whose only connection to an abstract
    pointer X was through the pointer of a parent type; the step drops that parent from D's bases and the pointer
    keeps X among its bases (target: std::property / std::link)."""
    out = set()
    for key, f in cs.sdiff.items():
        if key.split(' ')[0] not in ('Property', 'Link') or not isinstance(f, set) or 'bases' not in f:
            continue
        if not f <= {'bases', 'ancestors', 'pointers'} or key not in cs.ob or key not in cs.oa:
            continue
        rb, bb = _names(cs.dr, key, 'bases'), _names(cs.db, key, 'bases')
        extras = [x for x in rb if x not in bb]
        if not extras:
            continue
        # every extra base must be an ABSTRACT pointer (no source): a concrete pointer of the former parent that
        # stays among the bases is a different defect
        if any(cs.or_.get(x) is None or cs.or_[x].get_source(cs.r) is not None for x in extras):
            continue
        p = cs.ob[key]
        D = p.get_source(cs.b)
        Da = cs.a.get(D.get_name(cs.b), default=None) if D is not None else None
        if Da is None:
            continue
        dropped = {str(x.get_name(cs.a)) for x in Da.get_bases(cs.a).objects(cs.a)} - \
                  {str(x.get_name(cs.b)) for x in D.get_bases(cs.b).objects(cs.b)}
        if not dropped:
            continue
        pa = cs.oa[key]
        ok = True
        for e in extras:
            via = False
            for q in pa.get_bases(cs.a).objects(cs.a):          # the parent's pointer in the old schema
                src = q.get_source(cs.a)
                if src is None or str(src.get_name(cs.a)) not in dropped and not any(
                        str(z.get_name(cs.a)) in dropped for z in Da.get_bases(cs.a).objects(cs.a)
                        if src in z.get_ancestors(cs.a).objects(cs.a)):
                    continue
                if any(cs.sc._objname(cs.a, z) == e for z in q.get_ancestors(cs.a).objects(cs.a)):
                    via = True
            ok = ok and via
        if ok:
            out.add(key)
            out |= _ptr_desc_keys(cs, p, {'ancestors', 'bases'})
            # link properties that the kept abstract link keeps providing (extra objects in the result)
            pr = cs.or_.get(key)
            for k2, f2 in cs.sdiff.items():
                if f2 == '-' and k2.startswith('Property ') and k2 in cs.or_ and pr is not None \
                        and cs.or_[k2].get_source(cs.r) == pr:
                    out.add(k2)
    return {'pointer-keeps-abstract-base-after-drop-base': out} if out else {}


def c_alias_view_stale(cs: Case):
    """alias-view-pointer-not-refreshed: the differing pointer belongs to the view type of an alias, and the script
    ALTERs the pointer it derives from (a pointer ancestor in the target) in the underlying type: the change is not
    propagated to the alias' copy."""
    out = set()
    alters = cs.script_alters()
    for key, f in cs.sdiff.items():
        if key.split(' ')[0] not in ('Property', 'Link') or not isinstance(f, set) or key not in cs.ob:
            continue
        p = cs.ob[key]
        ow = p.get_source(cs.b)
        if ow is None or not hasattr(ow, 'get_expr') or ow.get_expr(cs.b) is None:
            continue
        for anc in p.get_ancestors(cs.b).objects(cs.b):
            src = anc.get_source(cs.b)
            if src is not None and (str(src.get_name(cs.b)), str(anc.get_shortname(cs.b).name)) in alters:
                out.add(key)
                break
    return {'alias-view-pointer-not-refreshed': out} if out else {}


def _exclusive_keys(dump, tname):
    """keys of exclusive constraints on type `tname` or on its pointers"""
    mod, _, n = tname.rpartition('::')
    tok = (f'@{mod.replace("::", "|")}|', f'&{mod.replace("::", "|")}||{n}@', f'|{n}@')
    return {k for k in dump if k.startswith('Constraint ') and 'std|exclusive@' in k
            and (k.split('@')[1].startswith(f'{mod.replace("::", "|")}|{n}') or f'&{mod.replace("::", "|")}||{n}@' in k)}


def c_computed_cardinality(cs: Case):
    """computed-cardinality-depends-on-exclusive-constraint-order: a computed object (global / computed pointer) and
    the pointers inheriting from it differ only in `cardinality`, and its expression refers to an object type that
    carries an exclusive constraint (old schema, target or result).  Cardinality inference of `select … filter .p = x`
    uses exclusive constraints, so the inferred value depends on whether the constraint already exists when the
    computed is (re)created: apply_sdl creates the computed before the constraint (Many), a migration onto a schema
    that has the constraint infers One, and adding / dropping the constraint later does not re-infer."""
    from edb.schema import objtypes as s_objtypes
    out = set()
    for key, f in cs.sdiff.items():
        if not isinstance(f, set) or not f <= {'cardinality'} or key not in cs.ob:
            continue
        o = cs.ob[key]
        e = o.get_expr(cs.b) if hasattr(o, 'get_expr') else None
        if e is None or e.refs is None:
            continue
        for ref in e.refs.objects(cs.b):
            if isinstance(ref, s_objtypes.ObjectType):
                tn = str(ref.get_name(cs.b))
                if _exclusive_keys(cs.da, tn) | _exclusive_keys(cs.db, tn) | _exclusive_keys(cs.dr, tn):
                    out.add(key)
    return {'computed-cardinality-depends-on-exclusive-constraint-order': out} if out else {}


def c_link_alias_stale(cs: Case):
    """computed-link-alias-stale-after-rebase: only computed_link_alias(_is_backward) of a computed link differs; the
    result still has the OLD schema's value (link L), and the script changes the bases of a type that owns a pointer
    inheriting from L in the old schema: the alias-ness of the computed link is not recomputed."""
    out = set()
    ev = script_events(cs)
    rebased = {e[1] for e in ev if e[0] in ('drop', 'add')}
    for key, f in cs.sdiff.items():
        if not isinstance(f, set) or not f <= {'computed_link_alias', 'computed_link_alias_is_backward'}:
            continue
        if key not in cs.da or key not in cs.dr:
            continue
        if any(_val(cs.dr[key].get(x)) != _val(cs.da[key].get(x)) for x in f):
            continue
        lname = _val(cs.dr[key].get('computed_link_alias')) or _val(cs.db[key].get('computed_link_alias'))
        L = cs.oa.get(lname) if isinstance(lname, str) else None
        if L is None:
            continue
        for k2, o2 in cs.oa.items():
            if k2.split(' ')[0] == 'Link' and any(x == L for x in o2.get_ancestors(cs.a).objects(cs.a)):
                src = o2.get_source(cs.a)
                if src is not None and str(src.get_name(cs.a)) in rebased:
                    out.add(key)
    return {'computed-link-alias-stale-after-rebase': out} if out else {}


def c_abstract_base_lost(cs: Case):
    """pointer-loses-abstract-base-after-add-base: a pointer declared `extending <abstract pointer>` loses that base
    when, in this step, its owner type (or an ancestor) gains a base that provides a pointer of the same name."""
    out = set()
    for key, f in cs.sdiff.items():
        if key.split(' ')[0] not in ('Property', 'Link') or not isinstance(f, set) or 'bases' not in f:
            continue
        if not f <= {'bases', 'ancestors'} or key not in cs.ob or key not in cs.oa:
            continue
        rb, bb, ab = _names(cs.dr, key, 'bases'), _names(cs.db, key, 'bases'), _names(cs.da, key, 'bases')
        missing = [x for x in bb if x not in rb]
        if not missing or [x for x in rb if x not in bb]:
            continue
        ok = True
        for m in missing:
            mo = cs.ob.get(m)
            if mo is None or mo.get_source(cs.b) is not None or m not in ab:
                ok = False
        D = cs.ob[key].get_source(cs.b)
        if ok and D is not None and any(e[0] == 'add' and e[1] in (
                {str(D.get_name(cs.b))} | {str(x.get_name(cs.b)) for x in D.get_ancestors(cs.b).objects(cs.b)})
                for e in script_events(cs)):
            out.add(key)
            out |= _ptr_desc_keys(cs, cs.ob[key], {'ancestors', 'bases'})
    return {'pointer-loses-abstract-base-after-add-base': out} if out else {}


def c_alias_over_alias(cs: Case):
    """alias-over-alias-stale: the differing object is an alias type (or belongs to one) whose defining
    expression (in the target) refers to ANOTHER alias."""
    from edb.schema import expraliases as s_aliases
    out = set()
    for key in cs.sdiff:
        sch, o = cs.obj(key)
        if o is None:
            continue
        ow = owner_type(sch, o)
        if ow is None:
            continue
        owb = cs.b.get(ow.get_name(sch), default=None)
        if owb is None:
            continue
        e = owb.get_expr(cs.b) if hasattr(owb, 'get_expr') else None
        if e is None or e.refs is None:
            continue
        if any(isinstance(x, s_aliases.Alias) for x in e.refs.objects(cs.b)):
            out.add(key)
    return {'alias-over-alias-stale': out} if out else {}


def c_errmessage(cs: Case):
    """errmessage-removed-empty-script: the step removes an explicit errmessage from a constraint (it is inherited
    in the target, was not in the old schema) and the computed script never mentions errmessage."""
    out = set()
    if 'errmessage' in cs.script.lower():
        return {}
    for key, f in cs.sdiff.items():
        if not key.startswith('Constraint ') or not isinstance(f, set) or not f <= {'errmessage', 'inherited_fields'}:
            continue
        ia, ib = _names(cs.da, key, 'inherited_fields'), _names(cs.db, key, 'inherited_fields')
        if ia is not None and ib is not None and 'errmessage' in ib and 'errmessage' not in ia:
            out.add(key)
    # constraints inheriting from one of those (same stale message)
    roots = {cs.sc._objname(cs.b, cs.ob[k]) for k in out if k in cs.ob}
    for key, f in cs.sdiff.items():
        if key.startswith('Constraint ') and isinstance(f, set) and f <= {'errmessage', 'inherited_fields'} and key in cs.ob:
            if any(cs.sc._objname(cs.b, x) in roots for x in cs.ob[key].get_ancestors(cs.b).objects(cs.b)):
                out.add(key)
    return {'errmessage-removed-empty-script': out} if out else {}


def c_alias_scalar(cs: Case):
    """alias-scalar-inherited-items-order-dependent: an alias that is a scalar type (expr set) whose base scalar carries
    constraints / inheritable annotations; exactly its `constraints` / `annotations` and the Constraint /
    AnnotationValue objects on it differ (missing in the result or in the target: whether the alias scalar gets the
    inherited items depends on the creation order of the alias and of the items)."""
    from edb.schema import scalars as s_scalars
    out = set()
    for key, f in cs.sdiff.items():
        if not key.startswith('ScalarType ') or not isinstance(f, set) or not f <= {'constraints', 'annotations'}:
            continue
        if key not in cs.ob:
            continue
        S = cs.ob[key]
        if S.get_expr(cs.b) is None:
            continue
        if not any(isinstance(x, s_scalars.ScalarType) and
                   (len(x.get_constraints(cs.b)) > 0 or len(x.get_annotations(cs.b)) > 0)
                   for x in S.get_bases(cs.b).objects(cs.b)):
            continue
        out.add(key)
        sname = S.get_name(cs.b)
        for k2, f2 in cs.sdiff.items():
            if f2 in ('+', '-') and k2.split(' ')[0] in ('Constraint', 'AnnotationValue'):
                sch, o = cs.obj(k2)
                subj = o.get_subject(sch) if o is not None else None
                if subj is not None and subj.get_name(sch) == sname:
                    out.add(k2)
    return {'alias-scalar-inherited-items-order-dependent': out} if out else {}


def _type_chain_rebased(cs: Case, D):
    """does the script change the bases of type D or of one of its ancestors (target)?"""
    names = {str(D.get_name(cs.b))} | {str(x.get_name(cs.b)) for x in D.get_ancestors(cs.b).objects(cs.b)}
    return any(e[0] in ('drop', 'add') and e[1] in names for e in script_events(cs))


def c_inherited_fields(cs: Case):
    """inherited-fields-stale-after-ancestor-change: ONLY the bookkeeping set `inherited_fields` of a pointer differs
    (all values equal), and for every field name in the symmetric difference the cause is present in the script:
    an ancestor pointer gets that very field SET/RESET, or the bases of the owner type (or of one of its ancestors)
    are changed (`inherited-fields-stale-after-rebase`): descendants' inherited_fields are not recomputed."""
    out = {}
    for key, f in cs.sdiff.items():
        if f != {'inherited_fields'} or key.split(' ')[0] not in ('Property', 'Link') or key not in cs.ob:
            continue
        ir, ib = set(_names(cs.dr, key, 'inherited_fields') or []), set(_names(cs.db, key, 'inherited_fields') or [])
        delta = ir ^ ib
        p = cs.ob[key]
        D = p.get_source(cs.b)
        if not delta or D is None:
            continue
        cs.script_alters()
        by_field = True
        for fld in delta:
            hit = False
            for anc in p.get_ancestors(cs.b).objects(cs.b):
                src = anc.get_source(cs.b)
                if src is None:
                    continue
                ops = cs._resets.get((str(src.get_name(cs.b)), str(anc.get_shortname(cs.b).name)), set())
                if any(n == fld for n, _ in ops):
                    hit = True
            by_field = by_field and hit
        if by_field:
            out.setdefault('inherited-fields-stale-after-ancestor-field-change', set()).add(key)
        elif hasattr(D, 'get_ancestors') and _type_chain_rebased(cs, D):
            out.setdefault('inherited-fields-stale-after-rebase', set()).add(key)
    return out


def c_reset_reinherits(cs: Case):
    """reset-reinherits-before-parent-dropped: the script RESETs field f of an overloaded pointer D.n while the parent
    pointer still exists (it is dropped / the base removed LATER in the same script), so the reset re-inherits the
    parent's value, which then stays: result value == the old parent's value, target value differs."""
    out = set()
    cs.script_alters()
    for key, f in cs.sdiff.items():
        if key.split(' ')[0] not in ('Property', 'Link') or not isinstance(f, set) or key not in cs.ob or key not in cs.oa:
            continue
        p, pa = cs.ob[key], cs.oa[key]
        D = p.get_source(cs.b)
        if D is None:
            continue
        ops = cs._resets.get((str(D.get_name(cs.b)), str(p.get_shortname(cs.b).name)), set())
        gone = [q for q in pa.get_ancestors(cs.a).objects(cs.a)
                if q.get_source(cs.a) is not None and cs.sc._objname(cs.a, q) not in
                {cs.sc._objname(cs.b, z) for z in p.get_ancestors(cs.b).objects(cs.b)}]
        ok = bool(gone) and bool(f - {'inherited_fields'})
        for fld in f:
            if fld == 'inherited_fields':
                continue
            if (fld, True) not in ops:
                ok = False
                break
            rv = _val(cs.dr[key][fld])
            if not any(cs.sc._objname(cs.a, q) in cs.da and _val(cs.da[cs.sc._objname(cs.a, q)].get(fld)) == rv
                       for q in gone):
                ok = False
        if ok:
            out.add(key)
    return {'reset-reinherits-before-parent-dropped': out} if out else {}


def c_default_removal(cs: Case):
    """overloaded-default-removal-not-emitted: an overloaded pointer had its own `default` in the old schema, the target
    inherits the default (`default` in inherited_fields), the result still has the old own default, and the script
    never touches the default of that pointer."""
    out = set()
    cs.script_alters()
    for key, f in cs.sdiff.items():
        if key.split(' ')[0] not in ('Property', 'Link') or not isinstance(f, set) or key not in cs.ob or key not in cs.oa:
            continue
        if 'default' not in f or not f <= {'default', 'inherited_fields'}:
            continue
        p = cs.ob[key]
        D = p.get_source(cs.b)
        ops = cs._resets.get((str(D.get_name(cs.b)), str(p.get_shortname(cs.b).name)), set()) if D is not None else set()
        if any(n == 'default' for n, _ in ops):
            continue
        ib, ia = _names(cs.db, key, 'inherited_fields') or [], _names(cs.da, key, 'inherited_fields') or []
        if 'default' in ib and 'default' not in ia and _val(cs.dr[key]['default']) == _val(cs.da[key]['default']):
            out.add(key)
    return {'overloaded-default-removal-not-emitted': out} if out else {}


def c_constraint_base(cs: Case):
    """subtype-constraint-loses-base: a constraint on type N ends with bases [std::constraint]; the step dropped a
    constraint with the same short name and subject expression from an ancestor of N."""
    out = set()
    for key, f in cs.sdiff.items():
        if not key.startswith('Constraint ') or not isinstance(f, set) or 'bases' not in f:
            continue
        if key not in cs.ob or _names(cs.dr, key, 'bases') != ['Constraint std::constraint']:
            continue
        c = cs.ob[key]
        N = c.get_subject(cs.b)
        Na = cs.a.get(N.get_name(cs.b), default=None) if N is not None else None
        if Na is None or not hasattr(Na, 'get_ancestors'):
            continue
        sx = c.get_subjectexpr(cs.b)
        sig = (str(c.get_shortname(cs.b)), sx.text if sx else None)

        def has(schema, T):
            for cc in T.get_constraints(schema).objects(schema):
                e = cc.get_subjectexpr(schema)
                if (str(cc.get_shortname(schema)), e.text if e else None) == sig:
                    return True
            return False
        for P in Na.get_ancestors(cs.a).objects(cs.a):
            Pb = cs.b.get(P.get_name(cs.a), default=None)
            if has(cs.a, P) and Pb is not None and hasattr(Pb, 'get_constraints') and not has(cs.b, Pb):
                out.add(key)
                break
    return {'subtype-constraint-loses-base': out} if out else {}


def script_events(cs: Case):
    """[('drop', type, base) | ('rename', old, new)] in script order (object types only)"""
    from edb.edgeql import parser as qlparser, ast as qlast
    ev = []
    try:
        for stmt in qlparser.parse_block(parseable(cs.script)):
            if not isinstance(stmt, qlast.AlterObjectType):
                continue
            tn = f'{stmt.name.module}::{stmt.name.name}'
            for c in stmt.commands:
                if isinstance(c, qlast.AlterDropInherit):
                    for b in c.bases:
                        mt = b.maintype
                        ev.append(('drop', tn, f'{mt.module}::{mt.name}'))
                elif isinstance(c, qlast.AlterAddInherit):
                    for b in c.bases:
                        mt = b.maintype
                        ev.append(('add', tn, f'{mt.module}::{mt.name}'))
                elif isinstance(c, qlast.Rename):
                    ev.append(('rename', tn, f'{c.new_name.module}::{c.new_name.name}'))
    except Exception:
        pass
    return ev


def c_drop_before_rename(cs: Case):
    """drop-base-before-its-rename: a base that the step both renames/moves and drops from T survives, because the
    script says `DROP EXTENDING <new name>` BEFORE the `RENAME TO <new name>` statement (script AST order)."""
    out = set()
    ev = script_events(cs)
    for key, f in cs.sdiff.items():
        if not key.startswith('ObjectType ') or not isinstance(f, set) or 'bases' not in f or key not in cs.ob:
            continue
        bb, rb = _names(cs.db, key, 'bases'), _names(cs.dr, key, 'bases')
        if bb is None or rb is None:
            continue
        extras = [x for x in rb if x not in bb]
        rest = [x for x in rb if x in bb] or [DEFAULT_BASE]
        if not extras or rest != bb:
            continue
        tn = key.split(' ', 1)[1]
        ok = True
        for e in extras:
            n = e.split(' ', 1)[1]
            di = [i for i, x in enumerate(ev) if x == ('drop', tn, n)]
            ri = [i for i, x in enumerate(ev) if x[0] == 'rename' and x[2] == n]
            if not (di and ri and min(di) < min(ri)):
                ok = False
        if ok:
            out |= subtree_keys(cs, key)
    return {'drop-base-before-its-rename': out} if out else {}


def c_annotation_add_base(cs: Case):
    """annotation-inherited-fields-after-add-base: only `inherited_fields` of an own AnnotationValue differs; its
    annotation is INHERITABLE; an ancestor of the subject (type ancestors, or pointer ancestors for a pointer subject)
    carries a value of the same annotation in the target; and the script ADDs a base to the type that owns the subject
    (or to one of its ancestors) in this step: re-inheriting marks the own value's `annotation` field as inherited."""
    out = set()
    ev = script_events(cs)
    for key, f in cs.sdiff.items():
        if not key.startswith('AnnotationValue ') or f != {'inherited_fields'} or key not in cs.ob:
            continue
        av = cs.ob[key]
        U = av.get_subject(cs.b)
        ann = av.get_annotation(cs.b)
        if U is None or not hasattr(U, 'get_ancestors') or not ann.get_inheritable(cs.b):
            continue
        if not any(any(x.get_annotation(cs.b) == ann for x in Q.get_annotations(cs.b).objects(cs.b))
                   for Q in U.get_ancestors(cs.b).objects(cs.b) if hasattr(Q, 'get_annotations')):
            continue
        T = owner_type(cs.b, U)
        if T is None or not hasattr(T, 'get_ancestors'):
            continue
        chain = {str(T.get_name(cs.b))} | {str(x.get_name(cs.b)) for x in T.get_ancestors(cs.b).objects(cs.b)}
        if any(e[0] == 'add' and e[1] in chain for e in ev):
            out.add(key)
    return {'annotation-inherited-fields-after-add-base': out} if out else {}


def _norm_expr(text):
    from edb.edgeql import parser as qlparser, codegen as qlcodegen
    return qlcodegen.generate_source(qlparser.parse_fragment(text))


def c_finalexpr(cs: Case):
    """constraint-finalexpr-rerendered-after-rename: only the TEXT of a constraint's finalexpr differs, both texts
    normalise to the same source (redundant parentheses), and the step renames an ancestor of the subject type."""
    out = set()
    renamed = {x[2] for x in script_events(cs) if x[0] == 'rename'}
    for key, f in cs.sdiff.items():
        if not key.startswith('Constraint ') or f != {'finalexpr'} or key not in cs.ob:
            continue
        try:
            tr, tb = cs.dr[key]['finalexpr'][0]['text'], cs.db[key]['finalexpr'][0]['text']
            same = _norm_expr(tr) == _norm_expr(tb)
        except Exception:
            same = False
        ow = owner_type(cs.b, cs.ob[key])
        if not same or ow is None or not hasattr(ow, 'get_ancestors'):
            continue
        if any(str(x.get_name(cs.b)) in renamed for x in ow.get_ancestors(cs.b).objects(cs.b)):
            out.add(key)
    return {'constraint-finalexpr-rerendered-after-rename': out} if out else {}


def c_alter_before_drop(cs: Case):
    """ancestor-alter-propagates-before-drop-extending: the script SETs field f on a pointer of the former parent and
    only AFTERWARDS drops that parent from the bases of D; the change has already been propagated to D's overload,
    which keeps it: result value of f == the ex-parent pointer's value in the target, target value differs."""
    out = set()
    cs.script_alters()
    for key, f in cs.sdiff.items():
        if key.split(' ')[0] not in ('Property', 'Link') or not isinstance(f, set) or key not in cs.ob or key not in cs.oa:
            continue
        flds = f - {'inherited_fields'}
        if not flds:
            continue
        p, pa = cs.ob[key], cs.oa[key]
        now = {cs.sc._objname(cs.b, z) for z in p.get_ancestors(cs.b).objects(cs.b)}
        gone = [q for q in pa.get_ancestors(cs.a).objects(cs.a)
                if q.get_source(cs.a) is not None and cs.sc._objname(cs.a, q) not in now]
        ok = bool(gone)
        for fld in flds:
            hit = False
            for q in gone:
                qk = cs.sc._objname(cs.a, q)
                src = q.get_source(cs.a)
                ops = cs._resets.get((str(src.get_name(cs.a)), str(q.get_shortname(cs.a).name)), set())
                if (fld, False) in ops and qk in cs.db and _val(cs.db[qk].get(fld)) == _val(cs.dr[key].get(fld)):
                    hit = True
            ok = ok and hit
        if ok:
            out.add(key)
            out |= _ptr_desc_keys(cs, p, set(flds) | {'inherited_fields'})
    return {'ancestor-alter-propagates-before-drop-extending': out} if out else {}


def c_drop_owned(cs: Case):
    """drop-owned-not-propagated-to-descendants: the script says `ALTER TYPE B { ALTER PROPERTY|LINK n { DROP OWNED } }`
    (B stops overloading n); B.n itself is re-inherited, but the pointers that inherit from B.n keep the OLD values:
    every differing field of such a descendant has, in the result, exactly the old schema's value."""
    out = set()
    cs.script_alters()
    dropped = {k for k, ops in cs._resets.items() if ('owned:drop', False) in ops}
    if not dropped:
        return {}
    for key, f in cs.sdiff.items():
        if key.split(' ')[0] not in ('Property', 'Link') or not isinstance(f, set) or key not in cs.ob or key not in cs.da:
            continue
        p = cs.ob[key]
        via = False
        for anc in p.get_ancestors(cs.b).objects(cs.b):
            src = anc.get_source(cs.b)
            if src is not None and (str(src.get_name(cs.b)), str(anc.get_shortname(cs.b).name)) in dropped:
                via = True
        if via and all(_val(cs.dr[key].get(x)) == _val(cs.da[key].get(x)) for x in f):
            out.add(key)
    return {'drop-owned-not-propagated-to-descendants': out} if out else {}


def c_readonly_unpin(cs: Case):
    """readonly-unpin-not-emitted: an overloaded pointer stated `readonly := true` locally in the old schema with the
    value it inherits anyway; the target leaves it to inheritance (`readonly` in inherited_fields); the script contains
    no RESET of readonly for that pointer; only inherited_fields differs, by exactly `readonly`."""
    out = set()
    cs.script_alters()
    for key, f in cs.sdiff.items():
        if f != {'inherited_fields'} or key.split(' ')[0] not in ('Property', 'Link') or key not in cs.ob or key not in cs.da:
            continue
        ia = set(_names(cs.da, key, 'inherited_fields') or [])
        ib = set(_names(cs.db, key, 'inherited_fields') or [])
        ir = set(_names(cs.dr, key, 'inherited_fields') or [])
        if ib - ir != {'readonly'} or ir - ib or 'readonly' in ia:
            continue
        p = cs.ob[key]
        D = p.get_source(cs.b)
        ops = cs._resets.get((str(D.get_name(cs.b)), str(p.get_shortname(cs.b).name)), set()) if D is not None else set()
        if any(n == 'readonly' for n, _ in ops):
            continue
        if _val(cs.da[key].get('readonly')) is True and _val(cs.db[key].get('readonly')) is True:
            out.add(key)
    return {'readonly-unpin-not-emitted': out} if out else {}


def c_orphan_collection(cs: Case):
    """orphan-collection-type-left-behind: the result contains a tuple / array type that the target does not contain,
    it already existed in the old schema (it was the type of a pointer / parameter that the step changed or dropped)
    and NOTHING in the result refers to it any more: the implicitly created collection type is not cleaned up."""
    out = set()
    for key, f in cs.sdiff.items():
        if f != '-' or key.split(' ')[0] not in ('Tuple', 'Array', 'TupleExprAlias', 'ArrayExprAlias'):
            continue
        if key not in cs.da or key not in cs.or_:
            continue
        o = cs.or_[key]
        try:
            refs = [x for x in cs.r.get_referrers(o) if x != o]
        except Exception:
            refs = [None]
        if not refs:
            out.add(key)
    return {'orphan-collection-type-left-behind': out} if out else {}


#: most specific first: a differing object is attributed to the FIRST predicate that explains it
CLASSIFIERS = (c_bases, c_orphan_collection, c_drop_before_rename, c_annotation_add_base, c_finalexpr, c_errmessage, c_alias_scalar,
               c_constraint_base, c_computed_cardinality, c_link_alias_stale, c_owned, c_abstract_base_kept,
               c_abstract_base_lost, c_drop_owned, c_readonly_unpin, c_reset_reinherits, c_alter_before_drop,
               c_default_removal, c_computed_status, c_alias_over_alias, c_alias_view_stale, c_inherited_fields)


LAST_ERROR = [None]


def classify(sc, a, b, r, script, da, db, dr):
    """-> sorted list of confirmed causes when EVERY differing object is explained, else None
    (an exception inside a predicate also gives None = unclassified; it is kept in LAST_ERROR)"""
    LAST_ERROR[0] = None
    try:
        cs = Case(sc, a, b, r, script, da, db, dr)
        if not cs.sdiff:
            return None
        explained, causes = set(), set()
        for fn in CLASSIFIERS:
            for cause, keys in fn(cs).items():
                new = (keys & set(cs.sdiff)) - explained
                if new:
                    causes.add(cause)
                    explained |= new
        if causes and set(cs.sdiff) <= explained:
            return sorted(causes)
    except Exception as e:
        LAST_ERROR[0] = f'{type(e).__name__}: {e}'[:300]
        return None
    return None


ANNOTATION_SET_OWNED = re.compile(r'ALTER\s+ANNOTATION\s+[\w:]+\s+SET\s+OWNED', re.I)
EMPTY_ALTER_FUNCTION = re.compile(r'ALTER\s+FUNCTION\s+[^;{}]*\)\s*;', re.S)


def classify_text_error(script: str, err: BaseException):
    """empty-alter-function: the script contains `ALTER FUNCTION f(...) ;` with no body and the parser rejects it"""
    if type(err).__name__ != 'EdgeQLSyntaxError':
        return None
    causes = []
    if EMPTY_ALTER_FUNCTION.search(script or ''):
        causes.append('empty-alter-function')
    # `ALTER ANNOTATION x SET OWNED` is emitted by the DDL generator but is not in the grammar
    if ANNOTATION_SET_OWNED.search(script or '') and "keyword 'SET'" in str(err):
        causes.append('alter-annotation-set-owned-unparseable')
    return causes or None
