"""C01: AST-level shrinking of a failing round-trip case + family classification.

`shrink(entry, tree, opts, status)` greedily deletes list elements / hoists sub-expressions /
replaces sub-expressions by the atom `x` as long as the SAME failure status persists, where a
candidate tree is always turned into text (safe printer) and re-parsed first, so every
intermediate witness is a text the real parser accepts.
"""
from __future__ import annotations

import copy
import re

from . import c01_rt as rt
from . import c01_gen as gen


def _mods():
    from edb.edgeql import ast as qlast
    from edb.common.ast import base as astbase
    return qlast, astbase


def children(node):
    """(key, child) for every AST child; key = (field,) | (field, i) | (field, dictkey)"""
    qlast, astbase = _mods()
    for name, val in astbase.iter_fields(node, include_meta=True):
        if name in ('span', 'system_comment'):
            continue
        if isinstance(val, qlast.Base):
            yield (name,), val
        elif isinstance(val, (list, tuple)):
            for i, v in enumerate(val):
                if isinstance(v, qlast.Base):
                    yield (name, i), v
        elif isinstance(val, dict):
            for k, v in val.items():
                if isinstance(v, qlast.Base):
                    yield (name, k), v


def get(tree, path):
    n = tree
    for key in path:
        v = getattr(n, key[0])
        n = v if len(key) == 1 else v[key[1]]
    return n


def put(tree, path, new):
    """functional update on a deep copy; returns the new tree (or `new` for the empty path)"""
    if not path:
        return new
    t = copy.deepcopy(tree)
    parent = get(t, path[:-1])
    key = path[-1]
    if len(key) == 1:
        setattr(parent, key[0], new)
    else:
        v = getattr(parent, key[0])
        if isinstance(v, tuple):
            v = list(v)
            v[key[1]] = new
            setattr(parent, key[0], tuple(v))
        else:
            v[key[1]] = new
    return t


def drop(tree, path):
    t = copy.deepcopy(tree)
    parent = get(t, path[:-1])
    key = path[-1]
    v = getattr(parent, key[0])
    if isinstance(v, dict):
        v = dict(v)
        del v[key[1]]
    else:
        v = list(v)
        del v[key[1]]
    setattr(parent, key[0], v)
    return t


def walk(tree, path=()):
    yield path, tree
    for key, ch in children(tree):
        yield from walk(ch, path + (key,))


def size(tree):
    return sum(1 for _ in walk(tree))


def is_atom(n):
    qlast, _ = _mods()
    return (isinstance(n, qlast.Path) and len(n.steps) == 1 and isinstance(n.steps[0], qlast.ObjectRef)
            and n.steps[0].module is None and not n.partial)


def run_case(entry, tree, opts):
    """tree -> safe text -> real parse -> oracle; returns RT (status 'rejected' if not accepted)"""
    try:
        text = gen.safe_text(_unwrap(entry, tree), **{k: v for k, v in opts.items()
                                                      if k in ('sdlmode', 'unsorted', 'descmode')})
        if entry == 'block':
            text += ';'
    except Exception as e:
        return rt.RT('rejected', 'safe-print', err=rt._errstr(e)), None
    r = rt.roundtrip_text(entry, text, opts)
    return r, text


def _unwrap(entry, tree):
    return tree


def shrink(entry, tree, opts, status, errsig='', budget=250):
    """tree: ONE statement (block) / Schema (sdl) / Expr (fragment).  Returns (tree, text, RT)."""
    qlast, _ = _mods()
    best = tree
    r0, t0 = run_case(entry, best, opts)
    if r0.status != status:
        return None      # the safe rendering of the tree does not reproduce; caller keeps the original text
    best_r, best_t = r0, t0

    def same(r):
        return r.status == status and (not errsig or errsig in r.err)

    x = lambda: qlast.Path(steps=[qlast.ObjectRef(name='x')])
    changed = True
    while changed and budget > 0:
        changed = False
        for path, node in walk(best):
            cands = []
            if path:
                key = path[-1]
                if len(key) == 2 and not (key == ('steps', 0)):
                    cands.append(lambda p=path: drop(best, p))
                # hoist a child of the same broad kind
                for _k, ch in children(node):
                    if isinstance(node, qlast.Expr) and isinstance(ch, qlast.Expr) and not isinstance(ch, qlast.ShapeElement):
                        cands.append(lambda p=path, c=ch: put(best, p, copy.deepcopy(c)))
                    elif isinstance(node, qlast.DDLOperation) and isinstance(ch, qlast.DDLOperation):
                        cands.append(lambda p=path, c=ch: put(best, p, copy.deepcopy(c)))
                    elif isinstance(node, qlast.TypeExpr) and isinstance(ch, qlast.TypeExpr):
                        cands.append(lambda p=path, c=ch: put(best, p, copy.deepcopy(c)))
                if isinstance(node, qlast.Expr) and not is_atom(node) and not isinstance(node, qlast.ShapeElement):
                    parent = get(best, path[:-1])
                    if not (isinstance(parent, qlast.ShapeElement) and key == ('expr',)) \
                            and not isinstance(parent, qlast.Path):
                        cands.append(lambda p=path: put(best, p, x()))
                if isinstance(node, qlast.Path) and len(node.steps) > 1:
                    pass   # handled by drop of steps elements
                if len(key) == 1 and not isinstance(node, qlast.Expr):
                    # optional non-expression child (position, options, ...): try None
                    cands.append(lambda p=path: put(best, p, None))
            else:
                if entry == 'block':
                    for _k, ch in children(node):
                        if isinstance(ch, qlast.Query) or isinstance(ch, qlast.DDLCommand):
                            cands.append(lambda c=ch: copy.deepcopy(c))
                        elif isinstance(ch, qlast.Expr) and not isinstance(ch, qlast.ShapeElement):
                            cands.append(lambda c=ch: qlast.SelectQuery(result=copy.deepcopy(c)))
            for mk in cands:
                if budget <= 0:
                    break
                budget -= 1
                try:
                    cand = mk()
                    r, t = run_case(entry, cand, opts)
                except Exception:
                    continue
                if same(r) and size(cand) < size(best):
                    best, best_r, best_t = cand, r, t
                    changed = True
                    break
            if changed:
                break
    return best, best_t, best_r


def skeleton(n, depth=0) -> str:
    qlast, _ = _mods()
    if n is None:
        return 'None'
    if not isinstance(n, qlast.Base):
        return type(n).__name__
    if is_atom(n):
        return '_'
    if isinstance(n, qlast.Constant):
        if n.kind != qlast.ConstantKind.STRING and n.value.startswith('-'):
            return 'NegConst'
        return 'Const'
    name = type(n).__name__
    if isinstance(n, qlast.UnaryOp):
        name += '[' + ('w' if str(n.op).isalnum() else str(n.op)) + ']'
    if isinstance(n, qlast.TypeCast) and n.cardinality_mod is not None:
        name += '[' + n.cardinality_mod.name.lower() + ']'
    if isinstance(n, qlast.Path) and n.partial:
        name += '[partial]'
    if depth > 12:
        return name + '{...}'
    parts = []
    for key, ch in children(n):
        parts.append(f'{key[0]}:{skeleton(ch, depth + 1)}')
    return name + ('{' + ','.join(parts) + '}' if parts else '')


# ordered rules: (family key, predicate on (status, skeleton, RT))
_NONATOMIC = r'(UnaryOp|NegConst|TypeCast\[optional\]|TypeCast\[required\]|DetachedExpr|GlobalExpr|Indirection|Shape|IfElse|BinOp|IsOp|Introspect|TypeCast\{[^}]*expr:(NegConst|UnaryOp))'
_PREFIXISH = r'(UnaryOp\[[^\]]*\]|NegConst)'

FAMILY_RULES = [
    ('expr-for-iterator-not-atomic', lambda st, sk, r: re.search(r'ForQuery\{(aliases:[^}]*,)?iterator:' + _NONATOMIC, sk)),
    ('expr-unary-plus-plus-fuses', lambda st, sk, r: st == 'reparse-fail' and re.search(r"UnaryOp\[\+\]\{operand:UnaryOp\[\+\]", sk)),
    ('expr-detached-operand-unparenthesised', lambda st, sk, r: re.search(r'DetachedExpr\{expr:(Path\{steps:[^}]*,steps|Indirection|Shape|Path\{steps:[^_])', sk)),
    ('expr-shape-subject-unparenthesised', lambda st, sk, r: re.search(r'Shape\{expr:(UnaryOp|NegConst|TypeCast|DetachedExpr)', sk)),
    ('expr-prefix-operand-unparenthesised', lambda st, sk, r: re.search(
        r'(BinOp|IsOp)\{left:(' + _PREFIXISH + r'|(TypeCast(\[\w+\])?\{expr:|DetachedExpr\{expr:)+' + _PREFIXISH + ')', sk)),
    ('expr-typecast-required-dropped', lambda st, sk, r: 'TypeCast[required]' in sk and 'cardinality_mod' in (r.diff or '')),
]


def classify(status, skel, r):
    for key, pred in FAMILY_RULES:
        try:
            if pred(status, skel, r):
                return key
        except Exception:
            continue
    return None
