"""./check <Cxx> --tier quick|thorough [--replay f]"""
import importlib
import sys
import traceback

from lib import core


def load(pid: str):
    return importlib.import_module(f'props.{pid.lower()}')


if __name__ == '__main__':
    core.main_run(load)
