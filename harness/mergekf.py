#!/usr/bin/env python3
"""mergekf.py [--apply] [--prune Cxx ...]: compare notes/*.known_findings*.json (package proposals) with
known_findings.json.  Never run by a check; a maintenance tool used when a package is integrated."""
import json, glob, sys, os
os.chdir(os.path.dirname(os.path.dirname(os.path.abspath(__file__))))
apply = '--apply' in sys.argv
prune = set(a for a in sys.argv[1:] if a.startswith('C'))
kf = json.load(open('known_findings.json'))
k = lambda f: (f['property'], f.get('key') or f.get('key_regex'))
have = {k(f) for f in kf['findings']}
prop = {}
for p in sorted(glob.glob('notes/*.known_findings*.json')) + ['corpus/C01/known_findings_proposed.json']:
    try: d = json.load(open(p))
    except Exception as e: print(p, 'ERR', e); continue
    fs = d['findings'] if isinstance(d, dict) else d
    for f in fs:
        if f.get('status', 'open') != 'open': continue
        prop.setdefault(f['property'], {})[k(f)] = f
        if k(f) not in have and not any(('key='+k(f)[1]+' ') in x for x in kf['fixed'] if ('property='+f['property']+' ') in x):
            print('NEW  ', p, k(f)[1][:90])
            if apply and (not prune or f['property'] in prune): kf['findings'].append(f); have.add(k(f))
for f in list(kf['findings']):
    if f.get('status','open')=='open' and f['property'] in prop and k(f) not in prop[f['property']]:
        print('STALE', f['property'], k(f)[1][:90])
        if apply and f['property'] in prune: kf['findings'].remove(f)
if apply: json.dump(kf, open('known_findings.json', 'w'), indent=1, ensure_ascii=False)
