import sys, types, re, uuid, os
REPO='/repo'
def _kw():
    src=open(f'{REPO}/edb/edgeql-parser/src/keywords.rs').read()
    out={}
    for m in re.finditer(r'pub const (\w+): phf::Set<&str> = phf_set!\((.*?)\);', src, re.S):
        out[m.group(1)]=frozenset(re.findall(r'"([^"]+)"', m.group(2)))
    return out
kw=_kw()
m=types.ModuleType('edb._edgeql_parser')
m.unreserved_keywords=kw['UNRESERVED_KEYWORDS']
m.partial_reserved_keywords=kw['PARTIAL_RESERVED_KEYWORDS']
m.future_reserved_keywords=kw['FUTURE_RESERVED_KEYWORDS']
m.current_reserved_keywords=kw['CURRENT_RESERVED_KEYWORDS']
class SyntaxError_(Exception): pass
m.SyntaxError=SyntaxError_
class _Dummy:
    def __init__(self,*a,**k): pass
for n in ['ParserResult','Hasher','Entry','CSTNode','Production','Terminal','SourcePoint','OpaqueToken']:
    setattr(m,n,type(n,(_Dummy,),{}))
def _na(*a,**k): raise NotImplementedError('native parser unavailable')
for n in ['normalize','parse','preload_spec','save_spec','offset_of_line','tokenize','unpickle_token','unpack']:
    setattr(m,n,_na)
sys.modules['edb._edgeql_parser']=m
t=types.ModuleType('edb.common.turbo_uuid')
class UUID(uuid.UUID):
    def __init__(self, inp):
        if isinstance(inp, uuid.UUID): super().__init__(int=inp.int)
        elif isinstance(inp,(bytes,bytearray)): super().__init__(bytes=bytes(inp))
        else: super().__init__(inp)
t.UUID=UUID
sys.modules['edb.common.turbo_uuid']=t
import edb.common
edb.common.turbo_uuid=t
p=types.ModuleType('parsing')
class Token:
    def __init__(self, parser=None): self.parser=parser
class Nonterm:
    def __init__(self, parser=None): self.parser=parser
class Precedence:
    def __init__(self, *a, **k): pass
class Spec:
    def __init__(self,*a,**k): raise NotImplementedError
class Lr: pass
class SyntaxError_(Exception): pass
p.Token=Token; p.Nonterm=Nonterm; p.Precedence=Precedence; p.Spec=Spec; p.Lr=Lr; p.SyntaxError=SyntaxError_
p.UnexpectedToken=SyntaxError_
sys.modules['parsing']=p
import importlib.abc, importlib.machinery
class _Stub(types.ModuleType):
    def __getattr__(self, name):
        if name.startswith('__'): raise AttributeError(name)
        v = type(name, (), {'__init__': lambda self,*a,**k: None})
        setattr(self, name, v)
        return v
STUBS = ['edb.pgsql.parser.parser','edb.server.dbview.dbview','edb.server._rust_native._conn_pool','edb.server._rust_native','uvloop','setproctitle','edb.server.compiler.rpc','graphql','edb.graphql.extension','edb.server.pgcon.pgcon','edb.server.cache.stmt_cache','edb.protocol.protocol','edb.server.pgproto','edb.server.pgproto.pgproto']
class F(importlib.abc.MetaPathFinder, importlib.abc.Loader):
    def find_spec(self, name, path, target=None):
        if name in STUBS:
            return importlib.machinery.ModuleSpec(name, self)
    def create_module(self, spec): 
        m=_Stub(spec.name); m.__path__=[]; return m
    def exec_module(self, m): pass
sys.meta_path.insert(0, F())


# build metadata normally generated at build time
_bm = types.ModuleType('edb._buildmeta')
_bm.VERSION = (7, 0, 0, 1, ())
_bm.SHARED_DATA_DIR = '/nonexistent'
_bm.RUNSTATE_DIR = '/nonexistent'
sys.modules['edb._buildmeta'] = _bm
import edb as _edb
_edb._buildmeta = _bm
STUBS += ['edb.server._rust_native._pg_rust', 'edb.server._rust_native._http',
          'edb.server._rust_native._jwt']


def install_bridge():
    """Front-end bridge: real tokenizer + LALR tables from the real grammar + real reductions."""
    from bridge import native
    native.install(sys.modules['edb._edgeql_parser'])
