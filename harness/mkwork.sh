#!/bin/bash
# mkwork.sh <name>: private working copy of /verif (no .git, no .lake) under /tmp/w-<name>/verif, Lean pre-built
set -e
d=/tmp/w-$1
rm -rf $d && mkdir -p $d
rsync -a --exclude .git --exclude .lake --exclude replays --exclude evidence /verif/ $d/verif/
(cd $d/verif/lean && lake build >/dev/null 2>&1 || true)
echo $d/verif
