"""regenerate lean/EdbVerif.lean from the Props files present"""
import os
d = os.path.join(os.path.dirname(os.path.dirname(os.path.abspath(__file__))), 'lean')
props = sorted(f[:-5] for f in os.listdir(os.path.join(d, 'EdbVerif', 'Props')) if f.endswith('.lean'))
with open(os.path.join(d, 'EdbVerif.lean'), 'w') as f:
    f.write('-- Root of the `EdbVerif` library: models, lemmas and property theorems.\n')
    for p in props:
        f.write(f'import EdbVerif.Props.{p}\n')
print(props)
