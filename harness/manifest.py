"""Generates /verif/MANIFEST.json from the table below:  python3 harness/manifest.py"""
import json
import os

VERIF = os.path.dirname(os.path.dirname(os.path.abspath(__file__)))

ALL = [f'C{i:02d}' for i in range(1, 21)]

# pid -> dict(category, text, design_ref, note, technique)
CLAIMED = {
    'C20': dict(
        category='proof',
        text='Lean 4 theorems (permutation, hard-edge respect, cycle iff hard∪control cyclic, soft edges honoured '
             'when jointly acyclic, unresolved iff, fuel independence) about a line-by-line model of sort_ex, for all '
             'finite graphs; the model is tied to the code by a differential run of the real sort_ex against the '
             'model (exhaustive 2-node graphs + random graphs to 40 nodes) and by evaluating the property itself on '
             'the real output.',
        design_ref='§4 C20',
        note='Trusted: Lean kernel + propext/Classical.choice/Quot.sound; hand-written model Model/Topo.lean '
             '(tied by differential testing, not by translation); harness generators/oracle. Determinism is '
             'relative to the iteration order of the input containers.',
        technique='Lean 4 proof over hand-written model + differential correspondence with real sort_ex',
    ),

    'C05': dict(
        category='proof',
        text='Lean theorems over a storage machine transcribed from pgsql/delta.py + types.py: for every guarded DDL '
             'history catalog ≈ layout(schema) (C05_tracks), no backend error, rename is the identity on the catalog, '
             'no live storage dropped, empty schema ⇒ empty catalog; the three unguarded steps are real defects '
             '(counterexample theorems + known findings). Tie: every generated DDL statement goes through the REAL '
             'pg_delta.CommandMeta.adapt/apply; the dbops tree is replayed on an abstract catalog and compared with the '
             'model and with the real get_pointer_storage_info/has_table of the resulting schema.',
        design_ref='§4 C05, §7',
        note='Model hand-written (flat inheritance; one DDL statement is expanded into elementary changes by diffing the '
             'real schema abstraction). No PostgreSQL: dbops→SQL text→server is outside. Column types/constraints not '
             'in the catalog abstraction.',
        technique='Lean 4 invariant proof over storage machine + differential replay of real pgsql delta command trees',
    ),
    'C06': dict(
        category='proof',
        text='Soundness theorems (cartesian/union/max/min/coalesce/typemod/filter/limit/distinct/for/if-else) about '
             'definitions GENERATED from cardinality.py/multiplicity.py/qltypes.py on every run by a Python-AST→Lean '
             'translator; MiniQL calculus with bag semantics transcribing toy_eval_model and inferCard/inferMult '
             'transcribing the __infer_* rules: C06_card_partial / C06_mult_partial with the exact side conditions, and '
             'decide-checked counterexamples for the nine ways the real compiler is unsound (known findings, replayed '
             'through the real compiler + real toy_eval_model).',
        design_ref='§4 C06, §7',
        note='Translator is trusted for the whitelisted Python subset (aborts outside it). Calculus, not full EdgeQL '
             '(no GROUP/DML/shapes/inheritance). Reference semantics = toy_eval_model (named by the property); no '
             'PostgreSQL.',
        technique='Lean 4 proofs over definitions regenerated from source + exhaustive/level-2 differential with real compiler and toy_eval_model',
    ),

    'C04': dict(
        category='proof',
        text='Lean invariant proofs over a model of FlatSchema\'s six indexes: Inv (names/refs_to/types agree with object '
             'data) for every guarded raw-op history, failed op ⇒ unchanged state, NoDangling ∧ Inv for every command '
             'history, dropped objects reachable through no index; necessity witnesses for each guard conjunct replayed '
             'on the real FlatSchema. Tie: step-by-step diff of ALL six real indexes against the model on random / '
             'exhaustive raw histories over real schema classes; real DDL scripts through the bridge with an API-level '
             'audit after every statement, old-version fingerprints, and trace validation (logged raw ops of the real '
             'engine replayed through the Lean model).',
        design_ref='§4 C04, §7',
        note='Model hand-written; delta.py command engine not modelled beyond the guarded layer (what real command trees '
             'do is checked per run by trace validation). delist excluded from store_inv (engine never calls it).',
        technique='Lean 4 invariant proofs + differential and trace validation against the real FlatSchema / DDL engine',
    ),
    'C07': dict(
        category='proof',
        text='Lean theorems: decision table (C07_decision), formula builder = decision for all five access kinds '
             '(C07_filter), no-bypass for the rewrite plan on every well-formed type DAG (C07_plan_nobypass), termination, '
             'exact bag equality on forests (C07_plan_partial) with decide-checked counterexamples for the two ways the '
             'real plan is inexact on DAGs. Tie: real get_rewrite_filter truth tables; real type_rewrites maps abstracted '
             'and compared per key; real compiled filter IR evaluated on valuations; real plan evaluated on generated '
             'databases; and an AUDIT of every emitted SQL tree (raw reads of protected tables only inside their filter '
             'CTE) over ~230 queries × 50 access-path templates per quick run.',
        design_ref='§4 C07, §7',
        note='"No generated SQL reads the storage without the condition" is a theorem about plans and a per-query audit for '
             'real SQL (not a proof about relctx/pathctx). Policy conditions are opaque predicates. Four genuine defects '
             'are known findings (incl. a policy bypass through links to union types).',
        technique='Lean 4 proofs over policy/plan model + differential on real compiler IR + SQL-tree audit',
    ),
    'C15': dict(
        category='proof',
        text='Lean invariant (ids unique, accounting exact, capacity bound) proved for every transition of the pool '
             'state machine, every environment parameter (quotas, clock predicates, block order) and every event list. '
             'Tie: the REAL Pool runs on a deterministic event loop (one ready handle per step chosen by the PRNG, virtual '
             'clock, connect/disconnect futures completed or failed by the harness); after every step the property is '
             'evaluated on the real object against a ghost live set, and the complete integer state is diffed against '
             'the Lean model transition by transition.',
        design_ref='§4 C15, §7',
        note='Float/clock-derived values are environment parameters of the model (read off the real pool each step). '
             'prune_all_connections modelled as written. pool2.py (Rust pool) out of scope.',
        technique='Lean 4 invariant proof over pool state machine + step-level differential on the real Pool under a deterministic scheduler',
    ),
    'C18': dict(
        category='proof',
        text='Lexer-inverse theorems at full strength for the fixed code: every string without NUL / every byte string / '
             'every expressible identifier printed by quote_literal, dollar_quote_literal, visit_Constant (all five '
             'forms), visit_BytesConstant, quote_ident is read back by the model of the Rust tokenizer as one token with '
             'the original value followed by any rest; same for SQL literal/identifier/bytea against a PostgreSQL lexical '
             'spec. Tie: 12 Python entry points + 5 generator paths vs Model/Quote; Model/Lex vs the REAL Rust tokenizer '
             '(rebuilt from /repo each run) on ~185k texts; real-only oracle quote→tokenize→single token; Unicode sweep of '
             'the Python/Rust character-class compatibility hypothesis.',
        design_ref='§4 C18, §7',
        note='PgLex is a specification transcribed from the PostgreSQL documentation (no server). Unicode tables are '
             'parameters; their compatibility (Compat P U) is swept on the running interpreters. Dollar-loop fuel '
             'sufficiency not proved (would print !fuel). quote_e_literal (dead code) is a known finding.',
        technique='Lean 4 lexer-inverse proofs + differential against real quoting functions and the real Rust tokenizer',
    ),
    'C19': dict(
        category='proof',
        text='Lean theorems: lookup precedence, op-sequence semantics as a left fold (SET/RESET/ADD/REM, uniqueness), '
             'rejection leaves all layers unchanged, JSON round trip on every reachable admissible state, Duration '
             'parse∘print = id for ALL Int microseconds (negatives included), memory round trip for all Nat. Tie: real '
             'Operation.apply / lookup / to_json / from_json / to_edgeql / Duration / ConfigMemory on random and '
             'exhaustive op sequences step by step; level 2: statements printed by the real to_edgeql are parsed, '
             'compiled and statically evaluated by the real compiler and re-applied (same effective configuration).',
        design_ref='§4 C19, §7',
        note='C19_edgeql is a test on real code, not a theorem. Six families of accepted-but-unserialisable values are '
             'known findings at the config-ops layer (reachability notes in notes/C19.md).',
        technique='Lean 4 proofs over config/duration/memory models + step-level differential on real config ops + real-compiler replay of DESCRIBE text',
    ),

    'C01': dict(
        category='proof',
        text='Lean theorems for the expression core: parse (pp e) = some e for every Safe e (WF + the parenthesisation '
             'side conditions the real printer needs), print idempotence, parse_wf, over a precedence table GENERATED '
             'from the real grammar classes on every run; decide-checked counterexamples where WF alone is not enough '
             '(the real printer omits parentheses around prefix forms). Tie: real printer→real tokenizer token streams vs '
             'pp; ~3000 unparenthesised operator chains through the real LR grammar vs the model parser. The property '
             'itself (parse→print→parse equal ASTs, print idempotent) is evaluated on the REAL parser/printer for ~13 600 '
             'texts per quick run (upstream corpora, operator-pair matrix, identifiers-in-position × keyword classes, '
             '250 DDL/SDL templates, mutants), in 7 printer modes.',
        design_ref='§4 C01, §7',
        note='DDL/SDL/migration/CONFIGURE printers (~110 of 180 visit_* methods) are covered only by the real-code oracle, '
             'not by theorems. Parsing runs through the front-end bridge (LALR tables rebuilt from the real grammar; '
             'fidelity gate in DESIGN §7). 38 genuine round-trip defect families are open known findings.',
        technique='Lean 4 proof of print/parse round trip over generated precedence table + real-code round-trip oracle through the parser bridge',
    ),
    'C09': dict(
        category='proof',
        text='Lean refinement theorems: the compiler-state machine (transcribed from dbstate.py, with object identity of '
             'Transaction objects) refines a PostgreSQL-style savepoint-stack spec for every history incl. rejected '
             'calls (refines, rejected_unchanged, rollback/rollback-to/release/commit corollaries); protocol-level '
             'refinement for server-model × compiler-state × transport (pickle and fixed REUSE pool) with compile and '
             'backend failures inside a stated envelope, decide-checked counterexamples outside it. Tie: real '
             'CompilerConnectionState/Transaction driven step by step; real Compiler.compile/compile_in_tx, real '
             'pool.FixedPool + real worker.py (in-process), and real statements through the bridge.',
        design_ref='§4 C09, §7',
        note='dbview.pyx / execute.pyx are Cython and cannot run: the server half is a transcription (Lean Server + Python '
             'Sim compared with each other, not with the Cython code). Four protocol findings are open known findings.',
        technique='Lean 4 refinement proof + differential against real dbstate/compiler/pool/worker code',
    ),
    'C12': dict(
        category='proof',
        text='Lean theorems over tables GENERATED each run from the real bootstrapped std schema (scalars, implicit casts, '
             '517 operator/function overloads): commonType = least upper bound (common_lub), resolution deterministic and '
             'permutation-invariant (resolve_det), numeric operator table agrees with typed evaluation (numeric_table, '
             'decide +kernel), soundness of inferType w.r.t. evaluation for the calculus (C12_sound_partial with the '
             'inCalc side condition). Tie: real cast distance/common type on all 361 scalar pairs; ~2750 operator cases '
             'and ~950 queries through the real compile_ast_to_ir (ir.stype), real output descriptors, and real '
             'toy_eval_model values classified against the inferred type.',
        design_ref='§4 C12, §7',
        note='toy_eval_model cannot distinguish int16/32/64/bigint nor float32/64 at value level. C12_sound is partial '
             '(inCalc side condition proved for numeric arithmetic/comparison, checked per query otherwise).',
        technique='Lean 4 proofs over tables regenerated from the real std schema + differential with real compiler and toy_eval_model',
    ),
    'C13': dict(
        category='translation_validation',
        text='A scope checker is proved sound AND complete in Lean against a declarative definition of PostgreSQL scoping '
             '(LATERAL, CTEs incl. RECURSIVE, sub-select exports, DML targets/excluded, JOIN ON); every SQL tree the REAL '
             'compiler emits for the generated population (≈280 queries/quick run over 4 schemas, 3772 in thorough) is '
             'exported and must pass it; ParamRef numbers must match the reported argmap (argmap theorems proved for the '
             'model of the real function); each query is compiled in two fresh processes with different hash seeds and '
             'SQL text/argmap/descriptors compared byte for byte.',
        design_ref='§4 C13, §7',
        note='The guarantee is per emitted query over the generated population (the 15 kloc SQL compiler is not modelled). '
             'PostgreSQL scoping rules as stated in Model/PgAst.lean are a trusted spec (no server). Nondeterminism of '
             'emitted text (set iteration order) is an open known finding.',
        technique='verified scope checker (Lean 4, sound+complete) run on every emitted SQL tree + double compilation',
    ),
    'C14': dict(
        category='proof',
        text='Lean codec theorems for both protocol families: decode (encode d) = d for the documented-format decoder incl. '
             'annotations (C14_roundtrip), prefix/no-overlap, de-duplication, derive() contexts, and injectivity of the id '
             'preimage for arbitrary element names (C14_id_inj, after fix c2beb91). Tie: the REAL encoder driven through '
             'stub schema objects subclassing the real classes (every _describe_* path) compared byte for byte with the '
             'model; real parse; real id functions; level 2: out_type_data/in_type_data of real compiled queries for '
             'protocols 1.0/2.0/3.0 × inline options decoded, re-encoded and compared with the query shape.',
        design_ref='§4 C14, §7',
        note='SHA-1/uuid5 collision resistance assumed. NUL in names excluded (tokenizer rejects it; checked each run). '
             'Schema→descriptor abstraction is harness code.',
        technique='Lean 4 codec round-trip and id-injectivity proofs + byte-level differential against the real encoder/decoder',
    ),
    'C17': dict(
        category='proof',
        text='Lean theorems over the delta-sync protocol model (identity tokens, falsy values, failure points): C17_intx at '
             'full strength for every history; failed sync changes nothing (unconditional); C17_used / C17_belief under '
             'the single hypothesis NoStatus2 with decide-checked counter-histories for the full statements; theorems '
             'documenting what the three fix: commits repaired. Tie: a real FixedPool/SimpleAdaptivePool with real '
             'worker.py instances in-process (only the socket transport and the compiler entry point replaced), compared '
             'after every request (wire contents, callback, outcome class, compiler inputs, belief and actual state).',
        design_ref='§4 C17, §7',
        note='Process transport, worker restarts and the multi-tenant LRU are not modelled. Status-2 (unserialisable '
             'result) family is an open known finding.',
        technique='Lean 4 invariant proofs over sync protocol + differential against real pool/worker code in-process',
    ),

    'C08': dict(
        category='proof',
        text='The statement-kind → capability table, Capability bit values and WRITE mask are GENERATED on every run by '
             'symbolic execution of the isinstance chain of _compile_dispatch_ql (17 rows, 120 concrete qlast classes); '
             'C08_kinds/C08_classes/C08_flags are decide-proofs over the generated table, so an edited table breaks a '
             'proof obligation. Calculus theorems: containsDML ⇒ MODIFICATIONS (also under ANALYZE), no MODIFICATIONS ⇒ '
             'database unchanged, group capability = OR of units, make_error ⇔ disallowed flag used. Tie: ~425 generated '
             'terms with DML planted in 45 nesting contexts + 187 hand-written contexts + every statement kind + scripts '
             'compiled by the REAL server compiler; oracle: DML node in the real parsed tree (following modifying '
             'functions) ⇒ MODIFICATIONS flag.',
        design_ref='§4 C08, §7',
        note='That the real compiler visits every sub-expression is what the planted-DML runs test; it is not proved. '
             'Volatility inference is not modelled (functions are Modifying iff body contains DML in the model).',
        technique='Lean 4 decide-proofs over table regenerated from source + calculus proofs + real server-compiler differential',
    ),
    'C11': dict(
        category='proof',
        text='Lean theorems: any two dependency-respecting orderings of commuting declarations give the same result '
             '(linear_extensions_equal), traced dependency graph depends only on the set of declarations (deps_perm), '
             'C11_perm / C11_perm_nested (permutations at top level, module blocks, type bodies build equal schemas) via '
             'C20 (topo_perm + topo_hard), C11_cycle (rejected as cyclic iff hard∪control edges cyclic; weak edges never '
             'cause it). Tie: every permuted text goes through the REAL parse_sdl + apply_sdl; the DepGraphEntry map the '
             'real tracer hands to topological.sort is recorded and compared with the model per load; schemas compared '
             'by delta_schemas both ways + structural dump.',
        design_ref='§4 C11, §7',
        note='The expression tracer is an input of the model (Complete d is an explicit hypothesis): missed edges are '
             'found only by permutations that need them — 16 such cases are open known findings (probe:*).',
        technique='Lean 4 order-independence proof on top of C20 + differential on real SDL loading with recorded dependency graphs',
    ),
    'C16': dict(
        category='proof',
        text='Lean safety lemmas over the pool model shared with C15 (no-lost-wakeup invariant, waiters consistency, '
             'abort_all on retry exhaustion, woken_empty, local progress C16_partial) and decide-checked counterexample '
             'histories showing the full liveness statement is FALSE of the model, which follows the code. Tie: the REAL '
             'Pool driven to quiescence under a fair deterministic scheduler (ticks included); every acquire must '
             'complete; hangs are shrunk, classified by root cause and reproduced under plain asyncio.',
        design_ref='§4 C16, §7',
        note='Partial by nature: cross-block fairness depends on float-calibrated quotas (environment parameters in the '
             'model). Three fault-free hang classes and the prune races are open known findings; the transfer/disconnect '
             'hang was fixed (6ff8693).',
        technique='Lean 4 invariant lemmas + counterexample theorems + fair-run quiescence testing of the real Pool',
    ),

    'C03': dict(
        category='proof',
        text='Lean theorems over an abstract schema/describe/load model with the real name-resolution rules '
             '(FlatSchema.get, utils.resolve_name, _classname_from_ast, tracer.resolve_name): a qualified name resolves '
             'independently of the session context exactly when no alias shadows its module '
             '(resolve_qualified_ctx_independent + converse), C03_ddl / C03_sdl: describe→tokens→parse→replay rebuilds S '
             'under every non-shadowing context, C03_ctx_independent, print/parse lemma; decide-checked '
             'counterexamples for the full statement (alias shadowing; SDL re-creating `default`). Tie: generated '
             'schemas loaded by the real engine, real ddl_text_from_schema / sdl_text_from_schema re-applied to a '
             'std-only schema under several session contexts (incl. shadowing aliases), outcome compared with the Lean '
             'prediction and the original (delta_schemas + structural dump); ~960 name-lookup cases against the real '
             'resolvers; printed-field table vs real introspection.',
        design_ref='§4 C03, §7',
        note='Partial: per-class _get_ast logic of the real printer is covered by the differential runs only; stored '
             'expression bodies are opaque in the model. Three finding classes are open known findings.',
        technique='Lean 4 proofs over describe/load + name-resolution model, differential replay of real DESCRIBE text through the bridge',
    ),

    'C02': dict(
        category='proof',
        text='Lean theorems: the real matching algorithm (delta_objects, modelled line by line) partitions old/new objects '
             'into created/altered/identical/deleted for EVERY similarity function, tie-break, rename table and '
             'inheritance order (diff_partition, diff_matching, diff_thresholds); on the flat schema algebra '
             'applyAll A (diff sim A B) = B (C02_apply_diff) and any needs-respecting order works (C02_any_order, via C20). '
             'Tie: real delta_objects on synthetic objects vs the model (400 matrices/quick); generated SDL pairs '
             'through the real START MIGRATION/POPULATE/COMMIT path, replayed as text (stored script and '
             'ddl_text_from_delta), compared with the target by delta_schemas both ways + structural dump; dedicated '
             'rebase streams.',
        design_ref='§4 C02, §7',
        note='The flat algebra abstracts the real apply engine (per-class compare, field inheritance merging, expression '
             'normalisation are reached only by the differential runs). C02_text not proved. SimSound is an explicit '
             'hypothesis. 13 root-cause classes of real migration residues are open known findings.',
        technique='Lean 4 proofs over diff planner + schema algebra, differential on real delta_objects and real migrations through the bridge',
    ),
    'C10': dict(
        category='proof',
        text='Lean theorems by induction from C02: folding migrate over any chain of valid schemas from ∅ ends in the last '
             'schema, independent of the similarity functions used on the way (C10_chain, C10_path_independent, '
             'C10_confluence), migrating to ∅ leaves nothing (C10_to_empty). Tie: generated chains S1…Sn through the '
             'real migration path, each step compared with the directly loaded Si and with ∅→Si; final migration to the '
             'empty schema must leave no user object.',
        design_ref='§4 C02/C10, §7',
        note='Same abstraction and known findings as C02 (chain variants of the residues).',
        technique='Lean 4 induction on top of C02 + differential on real migration chains',
    ),
}

NOT_YET = 'check not built yet in this round (planned in DESIGN.md §4); not claimed until its theorem and tie exist'


# packages delivered but not yet green on the unchanged tree (being reworked): not claimed until they are
PENDING = set()


def main():
    for _p in PENDING:
        CLAIMED.pop(_p, None)
    checks = []
    for pid in ALL:
        if pid not in CLAIMED:
            continue
        c = CLAIMED[pid]
        checks.append({
            'property_id': pid,
            'quick_cmd': f'./check {pid} --tier quick',
            'thorough_cmd': f'./check {pid} --tier thorough',
            'evidence_file': f'evidence/{pid}.json',
            'replay_cmd_template': f'./check {pid} --replay {{path}}',
            'engine': 'lean4+differential',
            'level_claimed': {'category': c['category'], 'text': c['text'], 'design_ref': c['design_ref']},
            'level_note': c['note'],
            'technique': c['technique'],
        })
    man = {
        'version': 1,
        'setup_cmd': './setup.sh',
        'hooks': {
            'guard': 'EDB_VERIF',
            'enable': 'no source hooks: the harness wraps functions at import time inside its own process '
                      '(EDB_VERIF=1 is exported by ./check for documentation only)',
            'baseline_off_cmd': 'cd /repo && /venv/bin/python -m pytest -ra -q -p no:cacheprovider --timeout=900 '
                                '--continue-on-collection-errors',
            'source_commits': [],
            'add_only': True,
        },
        'engines': [
            {'name': 'lean4+differential', 'path': 'lean/ + harness/',
             'serves_properties': sorted(CLAIMED),
             'kind_free_text': 'Lean 4 theorems over executable models; models tied to /repo by regenerated tables '
                               'and by differential runs of the real Python/Rust code against the Lean drivers'},
        ],
        'checks': checks,
        'not_applicable': [{'property_id': p, 'reason': NA.get(p, NOT_YET)} for p in ALL if p not in CLAIMED],
        'notes': 'See DESIGN.md. Exit 2 = infrastructure problem (never a VIOLATION).',
    }
    with open(os.path.join(VERIF, 'MANIFEST.json'), 'w') as f:
        json.dump(man, f, indent=1, ensure_ascii=False)
        f.write('\n')


NA: dict = {}

if __name__ == '__main__':
    main()
