"""Generates /verif/MANIFEST.json from the table below:  python3 harness/manifest.py"""
import json
import os

VERIF = os.path.dirname(os.path.dirname(os.path.abspath(__file__)))

ALL = [f'C{i:02d}' for i in range(1, 21)]

# pid -> dict(category, text, design_ref, note, technique)
CLAIMED = {
    'C20': dict(
        category='proof',
        text='Lean 4 theorems (permutation, hard-edge respect, cycle iff hard∪control cyclic, soft edges honoured '
             'when jointly acyclic, unresolved iff, fuel independence) about a line-by-line model of sort_ex, for all '
             'finite graphs; the model is tied to the code by a differential run of the real sort_ex against the '
             'model (exhaustive 2-node graphs + random graphs to 40 nodes) and by evaluating the property itself on '
             'the real output.',
        design_ref='§4 C20',
        note='Trusted: Lean kernel + propext/Classical.choice/Quot.sound; hand-written model Model/Topo.lean '
             '(tied by differential testing, not by translation); harness generators/oracle. Determinism is '
             'relative to the iteration order of the input containers.',
        technique='Lean 4 proof over hand-written model + differential correspondence with real sort_ex',
    ),

    'C05': dict(
        category='proof',
        text='Lean theorems over a storage machine transcribed from pgsql/delta.py + types.py: for every guarded DDL '
             'history catalog ≈ layout(schema) (C05_tracks), no backend error, rename is the identity on the catalog, '
             'no live storage dropped, empty schema ⇒ empty catalog; the three unguarded steps are real defects '
             '(counterexample theorems + known findings). Tie: every generated DDL statement goes through the REAL '
             'pg_delta.CommandMeta.adapt/apply; the dbops tree is replayed on an abstract catalog and compared with the '
             'model and with the real get_pointer_storage_info/has_table of the resulting schema.',
        design_ref='§4 C05, §7',
        note='Model hand-written (flat inheritance; one DDL statement is expanded into elementary changes by diffing the '
             'real schema abstraction). No PostgreSQL: dbops→SQL text→server is outside. Column types/constraints not '
             'in the catalog abstraction.',
        technique='Lean 4 invariant proof over storage machine + differential replay of real pgsql delta command trees',
    ),
    'C06': dict(
        category='proof',
        text='Soundness theorems (cartesian/union/max/min/coalesce/typemod/filter/limit/distinct/for/if-else) about '
             'definitions GENERATED from cardinality.py/multiplicity.py/qltypes.py on every run by a Python-AST→Lean '
             'translator; MiniQL calculus with bag semantics transcribing toy_eval_model and inferCard/inferMult '
             'transcribing the __infer_* rules: C06_card_partial / C06_mult_partial with the exact side conditions, and '
             'decide-checked counterexamples for the nine ways the real compiler is unsound (known findings, replayed '
             'through the real compiler + real toy_eval_model).',
        design_ref='§4 C06, §7',
        note='Translator is trusted for the whitelisted Python subset (aborts outside it). Calculus, not full EdgeQL '
             '(no GROUP/DML/shapes/inheritance). Reference semantics = toy_eval_model (named by the property); no '
             'PostgreSQL.',
        technique='Lean 4 proofs over definitions regenerated from source + exhaustive/level-2 differential with real compiler and toy_eval_model',
    ),
}

NOT_YET = 'check not built yet in this round (planned in DESIGN.md §4); not claimed until its theorem and tie exist'


def main():
    checks = []
    for pid in ALL:
        if pid not in CLAIMED:
            continue
        c = CLAIMED[pid]
        checks.append({
            'property_id': pid,
            'quick_cmd': f'./check {pid} --tier quick',
            'thorough_cmd': f'./check {pid} --tier thorough',
            'evidence_file': f'evidence/{pid}.json',
            'replay_cmd_template': f'./check {pid} --replay {{path}}',
            'engine': 'lean4+differential',
            'level_claimed': {'category': c['category'], 'text': c['text'], 'design_ref': c['design_ref']},
            'level_note': c['note'],
            'technique': c['technique'],
        })
    man = {
        'version': 1,
        'setup_cmd': './setup.sh',
        'hooks': {
            'guard': 'EDB_VERIF',
            'enable': 'no source hooks: the harness wraps functions at import time inside its own process '
                      '(EDB_VERIF=1 is exported by ./check for documentation only)',
            'baseline_off_cmd': 'cd /repo && /venv/bin/python -m pytest -ra -q -p no:cacheprovider --timeout=900 '
                                '--continue-on-collection-errors',
            'source_commits': [],
            'add_only': True,
        },
        'engines': [
            {'name': 'lean4+differential', 'path': 'lean/ + harness/',
             'serves_properties': sorted(CLAIMED),
             'kind_free_text': 'Lean 4 theorems over executable models; models tied to /repo by regenerated tables '
                               'and by differential runs of the real Python/Rust code against the Lean drivers'},
        ],
        'checks': checks,
        'not_applicable': [{'property_id': p, 'reason': NA.get(p, NOT_YET)} for p in ALL if p not in CLAIMED],
        'notes': 'See DESIGN.md. Exit 2 = infrastructure problem (never a VIOLATION).',
    }
    with open(os.path.join(VERIF, 'MANIFEST.json'), 'w') as f:
        json.dump(man, f, indent=1, ensure_ascii=False)
        f.write('\n')


NA: dict = {}

if __name__ == '__main__':
    main()
