"""Generates /verif/MANIFEST.json from the table below:  python3 harness/manifest.py"""
import json
import os

VERIF = os.path.dirname(os.path.dirname(os.path.abspath(__file__)))

ALL = [f'C{i:02d}' for i in range(1, 21)]

# pid -> dict(category, text, design_ref, note, technique)
CLAIMED = {
    'C20': dict(
        category='proof',
        text='Lean 4 theorems (permutation, hard-edge respect, cycle iff hard∪control cyclic, soft edges honoured '
             'when jointly acyclic, unresolved iff, fuel independence) about a line-by-line model of sort_ex, for all '
             'finite graphs; the model is tied to the code by a differential run of the real sort_ex against the '
             'model (exhaustive 2-node graphs + random graphs to 40 nodes) and by evaluating the property itself on '
             'the real output.',
        design_ref='§4 C20',
        note='Trusted: Lean kernel + propext/Classical.choice/Quot.sound; hand-written model Model/Topo.lean '
             '(tied by differential testing, not by translation); harness generators/oracle. Determinism is '
             'relative to the iteration order of the input containers.',
        technique='Lean 4 proof over hand-written model + differential correspondence with real sort_ex',
    ),
}

NOT_YET = 'check not built yet in this round (planned in DESIGN.md §4); not claimed until its theorem and tie exist'


def main():
    checks = []
    for pid in ALL:
        if pid not in CLAIMED:
            continue
        c = CLAIMED[pid]
        checks.append({
            'property_id': pid,
            'quick_cmd': f'./check {pid} --tier quick',
            'thorough_cmd': f'./check {pid} --tier thorough',
            'evidence_file': f'evidence/{pid}.json',
            'replay_cmd_template': f'./check {pid} --replay {{path}}',
            'engine': 'lean4+differential',
            'level_claimed': {'category': c['category'], 'text': c['text'], 'design_ref': c['design_ref']},
            'level_note': c['note'],
            'technique': c['technique'],
        })
    man = {
        'version': 1,
        'setup_cmd': './setup.sh',
        'hooks': {
            'guard': 'EDB_VERIF',
            'enable': 'no source hooks: the harness wraps functions at import time inside its own process '
                      '(EDB_VERIF=1 is exported by ./check for documentation only)',
            'baseline_off_cmd': 'cd /repo && /venv/bin/python -m pytest -ra -q -p no:cacheprovider --timeout=900 '
                                '--continue-on-collection-errors',
            'source_commits': [],
            'add_only': True,
        },
        'engines': [
            {'name': 'lean4+differential', 'path': 'lean/ + harness/',
             'serves_properties': sorted(CLAIMED),
             'kind_free_text': 'Lean 4 theorems over executable models; models tied to /repo by regenerated tables '
                               'and by differential runs of the real Python/Rust code against the Lean drivers'},
        ],
        'checks': checks,
        'not_applicable': [{'property_id': p, 'reason': NA.get(p, NOT_YET)} for p in ALL if p not in CLAIMED],
        'notes': 'See DESIGN.md. Exit 2 = infrastructure problem (never a VIOLATION).',
    }
    with open(os.path.join(VERIF, 'MANIFEST.json'), 'w') as f:
        json.dump(man, f, indent=1, ensure_ascii=False)
        f.write('\n')


NA: dict = {}

if __name__ == '__main__':
    main()
