"""Print markdown tables for DESIGN.md §7: seeded changes and known findings."""
import glob, json, os
V = os.path.dirname(os.path.dirname(os.path.abspath(__file__)))
NEEDS = json.load(open(os.path.join(V, 'seeded', 'needs.json')))
print('| seed | property | confirmed (demo fails with / passes without, 58 pinned tests pass) | our check | what it needs to manifest |')
print('|---|---|---|---|---|')
for mp in sorted(glob.glob(os.path.join(V, 'seeded', '*', 'meta.json'))):
    m = json.load(open(mp))
    c = m.get('check', {})
    res = ('caught, concrete input' if m.get('caught_with_input') else
           'caught (no-failing-input-found)' if m.get('caught') else 'MISSED (exit %s)' % c.get('rc'))
    needs = NEEDS.get(m['seed_id'], m.get('needs', ''))
    print(f"| `{m['seed_id']}` | {m['property']} | {'yes' if m.get('confirmed') else 'NO'} | {res} | {needs} |")
print()
kf = json.load(open(os.path.join(V, 'known_findings.json')))
print('| property | key | status | what fails |')
print('|---|---|---|---|')
for e in sorted(kf['findings'], key=lambda e: (e['property'], e['status'], e.get('key') or e.get('key_regex'))):
    print(f"| {e['property']} | `{e.get('key') or e.get('key_regex')}` | {e['status']} | {e['what_fails'][:160]} |")
