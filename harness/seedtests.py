"""Run the pinned test subset with each seeded patch applied (scratch worktree) and record the pass count in meta.json."""
import glob, json, os, re, subprocess, sys
V = os.path.dirname(os.path.dirname(os.path.abspath(__file__)))
def sh(c, cwd=None, env=None):
    r = subprocess.run(c, shell=True, cwd=cwd, capture_output=True, text=True, env=env); return r.returncode, r.stdout + r.stderr
for mp in sorted(glob.glob(os.path.join(V, 'seeded', '*', 'meta.json'))):
    m = json.load(open(mp))
    if m.get('pinned_tests_passed_with_patch') and '--force' not in sys.argv:
        continue
    d = os.path.dirname(mp); wt = '/tmp/seedtest-' + m['seed_id']
    sh(f'git -C /repo worktree remove --force {wt}')
    sh(f'git -C /repo worktree add -q --detach {wt} HEAD')
    rc, o = sh(f'git apply {d}/patch.diff', cwd=wt)
    if rc != 0:
        m['pinned_tests_note'] = 'patch does not apply on current HEAD'
    else:
        env = dict(os.environ, PYTHONPATH=wt, PYTHONDONTWRITEBYTECODE='1')
        rc, o = sh('/venv/bin/python -m pytest -q -p no:cacheprovider --timeout=900 --continue-on-collection-errors '
                   'tests/common tests/test_profiling.py tests/test_sourcecode.py 2>&1 | tail -3', cwd=wt, env=env)
        mm = re.search(r'(\d+) passed', o)
        m['pinned_tests_passed_with_patch'] = int(mm.group(1)) if mm else None
        m['pinned_tests_tail'] = o[-200:]
    sh(f'git -C /repo worktree remove --force {wt}')
    json.dump(m, open(mp, 'w'), indent=1)
    print(m['seed_id'], m.get('pinned_tests_passed_with_patch'), flush=True)
