"""Translator for C12: real bootstrapped std schema  ->  lean/EdbVerif/Gen/Types.lean

Extracted (from `env.std_schema()`, i.e. from the objects the REAL DDL engine built
out of edb/lib/**/*.edgeql — not from a scan of the text):

* the scalar universe: a fixed core list (shape-checked to exist) + every concrete
  scalar that is an endpoint of an implicit cast + every concrete scalar that is a
  parameter/return type of a selected callable and has std ancestry;
* the abstract scalars (anyscalar, anyint, ...) with their ancestor lists, and the
  ancestor list (in `get_ancestors` order — the order `get_common_parent_type_distance`
  indexes into) of every concrete scalar;
* every `s_casts.Cast` with `allow_implicit` between universe scalars;
* every `s_oper.Operator` of the selected operator names and every `s_func.Function`
  of the selected function names: parameter (typemod, type), return (typemod, type),
  abstract, recursive, derivative_of.

Shape checks fail loudly (GenError) instead of defaulting.
"""
from __future__ import annotations

import os

from lib import core

OUT = os.path.join(core.LEAN_DIR, 'EdbVerif', 'Gen', 'Types.lean')


class GenError(Exception):
    pass


CORE_SCALARS = [
    'std::int16', 'std::int32', 'std::int64', 'std::float32', 'std::float64',
    'std::bigint', 'std::decimal', 'std::str', 'std::bool', 'std::json', 'std::bytes',
    'std::uuid', 'std::datetime', 'std::duration', 'std::cal::local_datetime',
    'std::cal::local_date', 'std::cal::local_time', 'std::cal::relative_duration',
    'std::cal::date_duration',
]
ARITH = ['std::+', 'std::-', 'std::*', 'std::/', 'std:://', 'std::%', 'std::^']
COMPARE = ['std::=', 'std::!=', 'std::<', 'std::<=', 'std::>', 'std::>=', 'std::?=', 'std::?!=']
OTHER_OPS = ['std::++', 'std::AND', 'std::OR', 'std::NOT', 'std::UNION', 'std::??', 'std::IF',
             'std::IN', 'std::NOT IN', 'std::EXISTS', 'std::DISTINCT', 'std::EXCEPT',
             'std::INTERSECT', 'std::LIKE', 'std::ILIKE']
FUNCS = ['std::count', 'std::sum', 'std::len', 'std::min', 'std::max', 'std::array_agg',
         'std::array_unpack', 'math::abs', 'std::enumerate', 'std::all', 'std::any',
         'std::str_lower', 'std::str_upper', 'std::str_repeat', 'std::contains',
         'math::floor', 'math::ceil', 'std::round', 'math::mean', 'std::array_join']


OP_IDENT = {'+': 'plus', '-': 'minus', '*': 'times', '/': 'div', '//': 'floordiv', '%': 'mod',
            '^': 'pow', '=': 'eq', '!=': 'ne', '<': 'lt', '<=': 'le', '>': 'gt', '>=': 'ge',
            '?=': 'opteq', '?!=': 'optne', '++': 'concat', '??': 'coalesce', 'NOT IN': 'not_in'}


def fn_ident(name: str) -> str:
    """Lean identifier of a callable name (`std::+` -> op_plus, `math::abs` -> fn_math_abs)."""
    mod, _, short = name.rpartition('::')
    if short in OP_IDENT:
        return 'op_' + OP_IDENT[short]
    if short.isupper():
        return 'op_' + short.lower()
    if not short.replace('_', '').isalnum():
        raise GenError(f'no identifier for callable {name}')
    return 'fn_' + ('' if mod == 'std' else mod.replace('::', '_') + '_') + short


def lean_ident(name: str) -> str:
    n = name
    if n.startswith('std::'):
        n = n[5:]
    return n.replace('::', '_')


def extract(schema) -> dict:
    from edb.schema import casts as s_casts, operators as s_oper, functions as s_func
    from edb.schema import scalars as s_scalars, types as s_types, pseudo as s_pseudo
    from edb.schema import objtypes as s_objtypes
    from edb.edgeql import qltypes as ft

    s = schema

    def nm(o):
        return str(o.get_name(s))

    # ---- scalars
    all_scalars = {nm(o): o for o in s.get_objects(type=s_scalars.ScalarType)}
    for c in CORE_SCALARS:
        if c not in all_scalars or all_scalars[c].get_abstract(s):
            raise GenError(f'core scalar {c} missing or abstract in the std schema')
    casts = list(s.get_objects(type=s_casts.Cast))
    if len(casts) < 50:
        raise GenError(f'only {len(casts)} casts in the std schema: extraction shape changed')
    universe = list(CORE_SCALARS)
    edges = []
    skipped_implicit = []
    for c in casts:
        if not c.get_allow_implicit(s):
            continue
        f, t = c.get_from_type(s), c.get_to_type(s)
        if isinstance(f, s_scalars.ScalarType) and isinstance(t, s_scalars.ScalarType):
            for x in (f, t):
                if x.get_abstract(s):
                    raise GenError(f'implicit cast with abstract endpoint {nm(x)}')
                if nm(x) not in universe:
                    universe.append(nm(x))
            edges.append((nm(f), nm(t)))
        else:
            # only the range -> multirange cast is expected here
            skipped_implicit.append(f'{f.get_displayname(s)} -> {t.get_displayname(s)}')
    if skipped_implicit != ['range<std::anypoint> -> multirange<std::anypoint>']:
        raise GenError(f'unexpected non-scalar implicit casts: {skipped_implicit}')
    edges = sorted(set(edges), key=lambda e: (universe.index(e[0]), universe.index(e[1])))
    explicit = set()
    for c in casts:
        f, t = c.get_from_type(s), c.get_to_type(s)
        if (isinstance(f, s_scalars.ScalarType) and isinstance(t, s_scalars.ScalarType)
                and nm(f) in universe and nm(t) in universe):
            explicit.add((nm(f), nm(t)))
    explicit = sorted(explicit, key=lambda e: (universe.index(e[0]), universe.index(e[1])))
    if not set(edges) <= set(explicit) or len(explicit) < 40:
        raise GenError('explicit cast table does not contain the implicit edges / too small')
    if not edges:
        raise GenError('no implicit cast edges found')

    abstract = {}
    anc = {}
    for u in universe:
        a = [x for x in all_scalars[u].get_ancestors(s).objects(s)]
        for x in a:
            if not isinstance(x, s_scalars.ScalarType) or not x.get_abstract(s):
                raise GenError(f'{u} has a non-abstract ancestor {nm(x)}')
            abstract[nm(x)] = x
        anc[u] = [nm(x) for x in a]
    # abstract scalars used in signatures come in below; collect all std abstract ones
    for n, o in all_scalars.items():
        if o.get_abstract(s) and n.startswith('std::') and n != 'std::sequence':
            abstract[n] = o
    abs_names = sorted(abstract)
    abs_anc = {n: [nm(x) for x in abstract[n].get_ancestors(s).objects(s)] for n in abs_names}
    for n, l in abs_anc.items():
        for x in l:
            if x not in abstract:
                raise GenError(f'abstract scalar {n} has unknown ancestor {x}')

    # ---- parameter types
    def pty(t) -> str:
        if isinstance(t, s_pseudo.PseudoType):
            n = nm(t)
            if n in ('anytype', 'anytuple', 'anyobject'):
                return '.' + n
            raise GenError(f'unknown pseudo type {n}')
        if isinstance(t, s_scalars.ScalarType):
            n = nm(t)
            if n in universe:
                return f'(.scalar .{lean_ident(n)})'
            if n in abstract:
                return f'(.abs .{lean_ident(n)})'
            return '.unsupported'
        if isinstance(t, s_types.Array):
            e = pty(t.get_element_type(s))
            return '.unsupported' if e == '.unsupported' else f'(.array {e})'
        if isinstance(t, s_types.Tuple):
            if t.is_named(s):
                return '.unsupported'
            es = [pty(x) for x in t.get_subtypes(s)]
            if '.unsupported' in es:
                return '.unsupported'
            return f'(.tuple [{", ".join(es)}])'
        if isinstance(t, s_objtypes.ObjectType):
            if nm(t) == 'std::BaseObject':
                return '.baseObject'
            return '.unsupported'
        return '.unsupported'     # ranges, multiranges

    tmod = {ft.TypeModifier.SetOfType: '.setOf', ft.TypeModifier.OptionalType: '.optional',
            ft.TypeModifier.SingletonType: '.singleton'}

    callables = []
    deriv = {}

    def add(c, name, kind):
        params = c.get_params(s).get_in_canonical_order(s)
        simple = all(p.get_kind(s) is ft.ParameterKind.PositionalParam and p.get_default(s) is None
                     for p in params)
        ps = [(tmod[p.get_typemod(s)], pty(p.get_type(s))) for p in params]
        if not simple:
            ps = [(m, '.unsupported') for m, _ in ps]
        callables.append({
            'name': name, 'kind': kind, 'params': ps,
            'retMod': tmod[c.get_return_typemod(s)], 'ret': pty(c.get_return_type(s)),
            'abstract': bool(c.get_abstract(s)),
            'recursive': bool(getattr(c, 'get_recursive', lambda _s: False)(s)),
            'display': f'{name}(' + ', '.join(p.get_type(s).get_displayname(s) for p in params) + ') -> '
                       + c.get_return_type(s).get_displayname(s),
        })

    for on in ARITH + COMPARE + OTHER_OPS:
        ops = s.get_operators(on)
        if not ops:
            raise GenError(f'operator {on} not found in the std schema')
        for o in ops:
            add(o, on, o.get_operator_kind(s).name.lower())
        d = {o.get_derivative_of(s) for o in ops}
        if d != {None}:
            if len(d) != 1 or len(ops) != 1:
                raise GenError(f'{on}: mixed derivative_of {d}')
            deriv[on] = str(next(iter(d)))
    for fn in FUNCS:
        fs = s.get_functions(fn)
        if not fs:
            raise GenError(f'function {fn} not found in the std schema')
        for f in fs:
            add(f, fn, 'function')
    for on, orig in deriv.items():
        if not any(c['name'] == orig for c in callables):
            raise GenError(f'{on} derives from {orig} which is not extracted')
    callables.sort(key=lambda c: (c['name'], c['display']))
    n_arith = sum(1 for c in callables if c['name'] in ARITH)
    if n_arith < 40:
        raise GenError(f'only {n_arith} arithmetic operator overloads: extraction shape changed')
    numeric = [u for u in universe if 'std::anyreal' in anc[u]]
    if sorted(numeric) != sorted(CORE_SCALARS[:7]):
        raise GenError(f'numeric scalars (descendants of anyreal) are {numeric}')
    return {'universe': universe, 'edges': edges, 'anc': anc, 'abs': abs_names, 'abs_anc': abs_anc,
            'callables': callables, 'deriv': deriv, 'numeric': numeric, 'explicit': explicit}


def user_scalars(schema, universe, module='default') -> dict:
    """User-defined scalars of a harness schema, by the same route as the std tables (schema objects,
    not text): name -> {'id', 'chain' (own id, then ids of the user-defined ancestors, nearest first),
    'base' (qualified name of the topmost concrete std base; None for an enum), 'enum' (labels)}.
    Shape checks: every non-enum user scalar has a concrete std base inside the universe and a single
    inheritance chain."""
    from edb.schema import scalars as s_scalars
    s = schema
    objs = sorted((o for o in s.get_objects(type=s_scalars.ScalarType)
                   if str(o.get_name(s)).startswith(module + '::')), key=lambda o: str(o.get_name(s)))
    ids = {str(o.get_name(s)): i + 1 for i, o in enumerate(objs)}
    out = {}
    for o in objs:
        n = str(o.get_name(s))
        if o.is_enum(s):
            out[n] = {'id': ids[n], 'chain': [ids[n]], 'base': None,
                      'enum': list(o.get_enum_values(s))}
            continue
        chain = [ids[n]]
        for a in o.get_ancestors(s).objects(s):
            an = str(a.get_name(s))
            if an in ids:
                chain.append(ids[an])
            else:
                break
        top = o.get_topmost_concrete_base(s)
        tn = str(top.get_name(s))
        if tn not in universe:
            raise GenError(f'user scalar {n}: topmost concrete base {tn} is outside the scalar universe')
        bases = o.get_bases(s).objects(s)
        if len(bases) != 1:
            raise GenError(f'user scalar {n}: {len(bases)} bases')
        out[n] = {'id': ids[n], 'chain': chain, 'base': tn, 'enum': None}
    return out


PREAMBLE = '''/-
GENERATED by harness/gen/types.py from the bootstrapped std schema of /repo — DO NOT EDIT.
Scalar universe, abstract scalars, ancestor lists, implicit-cast edges and the
signatures of the selected operators / functions.
-/
namespace EdbVerif.Gen.Types

'''

STATIC = '''
/-- Parameter / return types as they occur in signatures (possibly polymorphic). -/
inductive PTy where
  | scalar (s : Scalar)
  | abs (a : Abs)
  | anytype
  | anytuple
  | anyobject
  | baseObject
  | array (e : PTy)
  | tuple (es : List PTy)
  | unsupported          -- ranges, multiranges, enums, named tuples, non-positional params …
  deriving Repr, Inhabited

inductive TMod where
  | singleton | optional | setOf
  deriving DecidableEq, Repr, Inhabited

structure Callable where
  fn : Fn
  kind : String
  params : List (TMod × PTy)
  retMod : TMod
  ret : PTy
  abstract : Bool
  recursive : Bool
  deriving Repr, Inhabited
'''


def render(d: dict) -> str:
    L = [PREAMBLE]
    ids = [lean_ident(u) for u in d['universe']]
    if len(set(ids)) != len(ids):
        raise GenError('scalar identifiers collide')
    L.append('inductive Scalar where\n' + ''.join(f'  | {i}\n' for i in ids)
             + '  deriving DecidableEq, Repr, Inhabited\n\n')
    L.append('def Scalar.all : List Scalar := [' + ', '.join('.' + i for i in ids) + ']\n\n')
    L.append('def Scalar.name : Scalar → String\n'
             + ''.join(f'  | .{lean_ident(u)} => "{u}"\n' for u in d['universe']) + '\n')
    aids = [lean_ident(a) for a in d['abs']]
    L.append('inductive Abs where\n' + ''.join(f'  | {i}\n' for i in aids)
             + '  deriving DecidableEq, Repr, Inhabited\n\n')
    L.append('def Abs.all : List Abs := [' + ', '.join('.' + i for i in aids) + ']\n\n')
    L.append('def Abs.name : Abs → String\n'
             + ''.join(f'  | .{lean_ident(a)} => "{a}"\n' for a in d['abs']) + '\n')
    L.append('/-- `get_ancestors` of a concrete scalar, in MRO order. -/\n'
             'def ancestors : Scalar → List Abs\n'
             + ''.join(f'  | .{lean_ident(u)} => [' + ', '.join('.' + lean_ident(a) for a in d['anc'][u]) + ']\n'
                       for u in d['universe']) + '\n')
    L.append('def absAncestors : Abs → List Abs\n'
             + ''.join(f'  | .{lean_ident(a)} => [' + ', '.join('.' + lean_ident(x) for x in d['abs_anc'][a]) + ']\n'
                       for a in d['abs']) + '\n')
    L.append('/-- `CREATE CAST … ALLOW IMPLICIT` between scalars: (from, to). -/\n'
             'def implicitEdges : List (Scalar × Scalar) := [\n'
             + ',\n'.join(f'  (.{lean_ident(a)}, .{lean_ident(b)})' for a, b in d['edges']) + ']\n\n')
    L.append('/-- every `CREATE CAST` between universe scalars (implicit, assignment or explicit) -/\n'
             'def allCasts : List (Scalar × Scalar) := [\n'
             + ',\n'.join(f'  (.{lean_ident(a)}, .{lean_ident(b)})' for a, b in d['explicit']) + ']\n\n')
    L.append('/-- descendants of std::anyreal -/\n'
             'def numeric : List Scalar := [' + ', '.join('.' + lean_ident(u) for u in d['numeric']) + ']\n\n')
    names = sorted({c['name'] for c in d['callables']})
    fids = [fn_ident(n) for n in names]
    if len(set(fids)) != len(fids):
        raise GenError('callable identifiers collide')
    L.append('\n/-- names of the extracted operators and functions -/\n'
             'inductive Fn where\n' + ''.join(f'  | {i}\n' for i in fids)
             + '  deriving DecidableEq, Repr, Inhabited\n\n')
    L.append('def Fn.all : List Fn := [' + ', '.join('.' + i for i in fids) + ']\n\n')
    L.append('def Fn.name : Fn → String\n'
             + ''.join(f'  | .{fn_ident(n)} => "{n}"\n' for n in names) + '\n')
    L.append('def arith : List Fn := [' + ', '.join('.' + fn_ident(a) for a in ARITH) + ']\n')
    L.append('def compare : List Fn := [' + ', '.join('.' + fn_ident(a) for a in COMPARE) + ']\n')
    L.append(STATIC)
    L.append('\n/-- all overloads of a callable name, as the schema holds them -/\n'
             'def overloads : Fn → List Callable\n')
    for n in names:
        rows = []
        for c in d['callables']:
            if c['name'] != n:
                continue
            ps = ', '.join(f'({m}, {t})' for m, t in c['params'])
            rows.append(f'    -- {c["display"]}\n'
                        f'    ⟨.{fn_ident(n)}, "{c["kind"]}", [{ps}], {c["retMod"]}, {c["ret"]}, '
                        f'{"true" if c["abstract"] else "false"}, {"true" if c["recursive"] else "false"}⟩')
        L.append(f'  | .{fn_ident(n)} => [\n' + ',\n'.join(rows) + ']\n')
    L.append('\n/-- derived operators (IN from =, NOT IN from !=): resolution uses the origin\'s overloads. -/\n'
             'def derivOf : Fn → Option Fn\n'
             + ''.join(f'  | .{fn_ident(a)} => some .{fn_ident(b)}\n' for a, b in sorted(d['deriv'].items()))
             + '  | _ => none\n\n')
    L.append('end EdbVerif.Gen.Types\n')
    return ''.join(L)


def generate(schema, write: bool = True) -> dict:
    """Regenerate Gen/Types.lean (only touching the file when the text changed, so lake
    rebuilds dependants exactly when the tables changed).  Returns the extracted tables."""
    d = extract(schema)
    text = render(d)
    if write:
        old = open(OUT).read() if os.path.exists(OUT) else None
        if old != text:
            os.makedirs(os.path.dirname(OUT), exist_ok=True)
            with open(OUT, 'w') as f:
                f.write(text)
        d['changed'] = old != text
    d['text'] = text
    return d


if __name__ == '__main__':
    from bridge import env
    env.setup()
    r = generate(env.std_schema())
    print(f"{len(r['universe'])} scalars, {len(r['edges'])} implicit edges, "
          f"{len(r['callables'])} callables, changed={r['changed']}")
