"""Translator: edb/server/compiler/{compiler,enums,status}.py -> lean/EdbVerif/Gen/Caps.lean

Regenerated on every run of ``./check C08``.  Three things are extracted:

1. the *statement kind -> capability* table: an AST walk of the
   ``if isinstance(ql, qlast.X) ... elif ... else`` chain of
   ``_compile_dispatch_ql`` with a tiny symbolic executor that enumerates every
   path through a branch (nested ``if``s on the result class, ``tx_action``,
   config scope, ``ctx.notebook``, ``has_dml``) and evaluates the capability
   expression returned on that path.  Anything the executor does not know
   (new statement form, new kind of test, capability computed some other way)
   raises :class:`ShapeError` - the caller turns that into a failed proof
   obligation, the table is never guessed;
2. ``Capability`` bit values, the iteration order of ``for item in Capability``
   and ``CAPABILITY_TITLES`` (by import);
3. every concrete ``qlast`` statement class with (a) the branch of the chain
   it is dispatched to (``issubclass`` in chain order, by import) and (b) its
   *status family* taken from the independent ``status.get_status``
   single-dispatch registry (CREATE/ALTER/DROP..., START MIGRATION...,
   START TRANSACTION..., SET ALIAS..., CONFIGURE...).

``python -m gen.caps`` prints the Lean text; ``generate()`` returns
(text, info) and ``write()`` updates the file only when the text changed.
"""
from __future__ import annotations

import ast
import os
from typing import Any

from lib import core

SRC = os.path.join(core.REPO, 'edb', 'server', 'compiler', 'compiler.py')
OUT = os.path.join(core.LEAN_DIR, 'EdbVerif', 'Gen', 'Caps.lean')

FUNC = '_compile_dispatch_ql'


class ShapeError(Exception):
    """the source no longer has the form the translator understands"""


def _src(node) -> str:
    return ast.unparse(node)


def _fail(node, why):
    raise ShapeError(f'{FUNC}: line {getattr(node, "lineno", "?")}: {why}: `{_src(node)[:160]}`')


# ------------------------------------------------------------ symbolic values
def _cap_value(node, env) -> frozenset | None:
    """capability expression -> set of flag names; None when `node` is not one"""
    if isinstance(node, ast.Attribute) and _src(node.value) == 'enums.Capability':
        return frozenset([node.attr])
    if (isinstance(node, ast.Call) and _src(node.func) == 'enums.Capability'
            and len(node.args) == 1 and isinstance(node.args[0], ast.Constant)
            and node.args[0].value == 0 and not node.keywords):
        return frozenset()
    if isinstance(node, ast.BinOp) and isinstance(node.op, ast.BitOr):
        a, b = _cap_value(node.left, env), _cap_value(node.right, env)
        if a is None or b is None:
            return None
        return a | b
    if isinstance(node, ast.Name) and node.id in env:
        return env[node.id]
    return None


# conditions: (key, value) pairs; a test evaluates to a list of
# (assumptions-if-true, assumptions-if-false)
def _test(node, cls_var='ql') -> tuple[str, Any]:
    s = _src(node)
    if s == 'isinstance(query, dbstate.MigrationControlQuery)':
        return ('result', 'MigrationControlQuery')
    if s == 'isinstance(query, dbstate.DDLQuery)':
        return ('result', 'DDLQuery')
    if s == 'query.tx_action':
        return ('txAction', True)
    if s == 'ctx.notebook':
        return ('notebook', True)
    if (isinstance(node, ast.Compare) and len(node.ops) == 1 and isinstance(node.ops[0], ast.Is)
            and _src(node.left) == 'ql.scope'
            and _src(node.comparators[0]).startswith('qltypes.ConfigScope.')):
        return ('scope', _src(node.comparators[0]).rsplit('.', 1)[1])
    if (isinstance(node, ast.BoolOp) and isinstance(node.op, ast.And) and len(node.values) == 2
            and _src(node.values[0]) == 'isinstance(query, (dbstate.Query, dbstate.SimpleQuery))'
            and _src(node.values[1]) == 'query.has_dml'):
        return ('hasDml', True)
    _fail(node, 'unknown kind of test inside a branch')


def _paths(stmts, env, conds):
    """enumerate (conds, caps) for every path through `stmts` that returns."""
    env = dict(env)
    out = []
    for i, st in enumerate(stmts):
        if isinstance(st, ast.Assign) and len(st.targets) == 1 and isinstance(st.targets[0], ast.Name):
            v = _cap_value(st.value, env)
            name = st.targets[0].id
            if v is not None:
                env[name] = v
            elif name in ('capability', 'caps'):
                _fail(st, 'capability assigned from an expression the translator cannot evaluate')
            elif name == 'query' and isinstance(st.value, ast.Call):
                env.pop(name, None)
            else:
                _fail(st, 'unexpected assignment')
        elif isinstance(st, ast.AugAssign) and isinstance(st.op, ast.BitOr) and isinstance(st.target, ast.Name):
            v = _cap_value(st.value, env)
            if v is None or st.target.id not in env:
                _fail(st, 'capability |= something unknown')
            env[st.target.id] = env[st.target.id] | v
        elif isinstance(st, ast.AugAssign):
            _fail(st, 'capability updated with an operator other than |=')
        elif isinstance(st, ast.Assert):
            continue
        elif isinstance(st, ast.Return):
            v = st.value
            if not (isinstance(v, ast.Tuple) and len(v.elts) == 2):
                _fail(st, 'return is not a (query, capability) pair')
            c = _cap_value(v.elts[1], env)
            if c is None:
                _fail(st, 'returned capability cannot be evaluated')
            out.append((tuple(conds), c))
            return out, True
        elif isinstance(st, ast.If):
            key, val = _test(st.test)
            rest = stmts[i + 1:]
            # true side
            o1, r1 = _paths(list(st.body) + ([] if _returns(st.body) else rest), env, conds + [(key, val)])
            # false side: remember the negation
            neg = (key, False) if isinstance(val, bool) else (key, ('not', val))
            o2, r2 = _paths(list(st.orelse) + ([] if (st.orelse and _returns(st.orelse)) else rest),
                            env, conds + [neg])
            if not (r1 and r2):
                _fail(st, 'a path through the branch does not return')
            return out + o1 + o2, True
        else:
            _fail(st, 'unexpected statement in a branch')
    return out, False


def _returns(stmts) -> bool:
    if not stmts:
        return False
    last = stmts[-1]
    if isinstance(last, ast.Return):
        return True
    if isinstance(last, ast.If):
        return _returns(last.body) and bool(last.orelse) and _returns(last.orelse)
    return False


def _norm_conds(conds, scopes):
    """merge chained negations: result not A, not B -> result Other; scope not
    S, not G -> one row per remaining scope."""
    pos: dict[str, Any] = {}
    negs: dict[str, list] = {}
    order = []
    for k, v in conds:
        if k not in order:
            order.append(k)
        if isinstance(v, tuple) and v[0] == 'not':
            negs.setdefault(k, []).append(v[1])
        else:
            pos[k] = v
    rows = [[]]
    for k in order:
        if k in pos:
            rows = [r + [(k, pos[k])] for r in rows]
        elif k == 'result':
            rows = [r + [(k, 'Other')] for r in rows]
        elif k == 'scope':
            rest = [s for s in scopes if s not in negs[k]]
            if not rest:
                raise ShapeError('config scope chain leaves no scope for the final else')
            rows = [r + [(k, s)] for r in rows for s in rest]
        else:
            raise ShapeError(f'cannot normalise negated condition {k}')
    return rows


def extract_chain(source: str, scopes: list[str]):
    tree = ast.parse(source)
    fns = [n for n in tree.body if isinstance(n, ast.FunctionDef) and n.name == FUNC]
    if len(fns) != 1:
        raise ShapeError(f'{FUNC} not found exactly once at module level')
    fn = fns[0]
    body = [s for s in fn.body if not (isinstance(s, ast.Expr) and isinstance(s.value, ast.Constant))]
    if len(body) != 1 or not isinstance(body[0], ast.If):
        raise ShapeError(f'{FUNC}: body is not a single if/elif chain')
    ret = _src(fn.returns) if fn.returns else ''
    if 'enums.Capability' not in ret:
        raise ShapeError(f'{FUNC}: return annotation changed: {ret}')
    rows = []
    chain = []
    node = body[0]
    while True:
        t = node.test
        if not (isinstance(t, ast.Call) and _src(t.func) == 'isinstance' and len(t.args) == 2
                and _src(t.args[0]) == 'ql' and _src(t.args[1]).startswith('qlast.')):
            _fail(t, 'chain test is not isinstance(ql, qlast.X)')
        cls = _src(t.args[1])[len('qlast.'):]
        chain.append(cls)
        paths, r = _paths(node.body, {}, [])
        if not r:
            _fail(node, f'branch {cls} does not return on every path')
        for conds, caps in paths:
            for nc in _norm_conds(conds, scopes):
                rows.append((cls, nc, caps))
        if len(node.orelse) == 1 and isinstance(node.orelse[0], ast.If):
            node = node.orelse[0]
            continue
        # final else
        els = node.orelse
        if not els:
            raise ShapeError(f'{FUNC}: chain has no final else')
        a = els[0]
        if not (isinstance(a, ast.Assert) and _src(a.test) == 'isinstance(ql, (qlast.Query, qlast.Command))'):
            _fail(a, 'final else does not start with the (Query, Command) assertion')
        paths, r = _paths(els, {}, [])
        if not r:
            _fail(node, 'final else does not return on every path')
        for conds, caps in paths:
            for nc in _norm_conds(conds, scopes):
                rows.append(('QueryOrCommand', nc, caps))
        chain.append('QueryOrCommand')
        break
    # no two rows with the same key
    keys = [(c, tuple(n)) for c, n, _ in rows]
    if len(set(keys)) != len(keys):
        raise ShapeError('duplicate rows in the extracted table')
    return chain, rows


# ------------------------------------------------------------- by import part
STATUS_FAMILY = [   # prefix of the registered status function's name -> family
    ('_ddl_migr_', 'migration'), ('_ddl_', 'ddl'), ('_rename', 'ddl'),
    ('_tx_', 'tx'), ('_sess_set_config', 'config'), ('_sess_', 'session'),
    ('_select', 'query'), ('_insert', 'query'), ('_update', 'query'), ('_delete', 'query'),
    ('_describe', 'describe'), ('_explain', 'analyze'), ('_administer', 'administer'),
]


def collect_imported(chain):
    import shim  # noqa: F401
    from edb.edgeql import ast as qlast, qltypes
    from edb.server.compiler import enums, status

    Cap = enums.Capability
    items = [(m.name, int(m)) for m in Cap]                 # iteration order used by make_error
    for n, v in items:
        if v & (v - 1) or v == 0:
            raise ShapeError(f'Capability.{n} = {v} is not a single bit')
    titles = {m.name: enums.CAPABILITY_TITLES[m] for m in Cap}
    consts = {'ALL': int(Cap.ALL), 'WRITE': int(Cap.WRITE), 'NONE': int(Cap.NONE)}
    if consts['ALL'] != (1 << 64) - 1:
        raise ShapeError(f'Capability.ALL = {consts["ALL"]:#x} is not the 64-bit mask the model assumes')
    write_names = sorted(n for n, v in items if v & consts['WRITE'])
    if sum(v for n, v in items if n in write_names) != consts['WRITE']:
        raise ShapeError('WRITE mask has bits outside the named flags')
    scopes = [s.name for s in qltypes.ConfigScope]

    def resolve(name):
        if name == 'QueryOrCommand':
            return (qlast.Query, qlast.Command)
        return getattr(qlast, name)

    def allsub(c, acc):
        for s in c.__subclasses__():
            if s not in acc:
                acc.add(s)
                allsub(s, acc)
        return acc

    classes = []
    if chain is not None:
        targets = [resolve(n) for n in chain]
        for c in sorted(allsub(qlast.Base, set()), key=lambda c: c.__name__):
            if c.__dict__.get('__abstract_node__'):
                continue
            br = next((n for n, t in zip(chain, targets) if issubclass(c, t)), None)
            if br is None:
                continue
            try:
                fn = status.get_status.dispatch(c).__name__
            except Exception as e:      # pragma: no cover
                raise ShapeError(f'status.get_status dispatch failed for {c.__name__}: {e}')
            fam = next((f for p, f in STATUS_FAMILY if fn.startswith(p)), None)
            if fam is None:
                if fn == 'get_status':
                    fam = 'nostatus'
                else:
                    raise ShapeError(f'status function {fn} (for qlast.{c.__name__}) has no known family')
            classes.append((c.__name__, br, fam))
    return {'items': items, 'titles': titles, 'consts': consts, 'scopes': scopes, 'classes': classes}


# ------------------------------------------------------------------ rendering
def _cond_lean(k, v):
    if k == 'result':
        return f'.result .{v[0].lower() + v[1:]}'
    if k == 'scope':
        return f'.scope .{v.capitalize()}'
    return f'.{k} {"true" if v else "false"}'


def _caps_lean(caps):
    order = ['MODIFICATIONS', 'SESSION_CONFIG', 'TRANSACTION', 'DDL', 'PERSISTENT_CONFIG']
    extra = [c for c in caps if c not in order]
    if extra:
        raise ShapeError(f'capability {extra} is not a named single-bit flag')
    names = [c for c in order if c in caps]
    return ' ||| '.join(names) if names else 'NONE'


def render(chain, rows, imp) -> str:
    known_chain = {'MigrationCommand', 'DDLCommand', 'Transaction', 'SessionCommand_tuple', 'ConfigOp',
                   'ExplainStmt', 'AdministerStmt', 'QueryOrCommand'}
    L = []
    w = L.append
    w('/-')
    w('GENERATED by harness/gen/caps.py from /repo/edb/server/compiler/{compiler,enums,status}.py')
    w('and /repo/edb/edgeql/{ast,qltypes}.py - do not edit; regenerated on every `./check C08`.')
    w('-/')
    w('namespace EdbVerif.Gen.Caps')
    w('')
    w('/-- capability sets: `enums.Capability` is an IntFlag whose `ALL` is the 64-bit mask -/')
    w('abbrev Caps := BitVec 64')
    w('')
    for n, v in imp['items']:
        w(f'def {n} : Caps := {v}#64')
    w(f'def ALL : Caps := {imp["consts"]["ALL"]}#64')
    w(f'def NONE : Caps := {imp["consts"]["NONE"]}#64')
    w(f'def WRITE : Caps := {imp["consts"]["WRITE"]}#64')
    w('')
    w('/-- `for item in Capability` (canonical single-bit members, definition order) with')
    w('`CAPABILITY_TITLES[item]` -/')
    w('def items : List (String × Caps × String) := [')
    w(',\n'.join(f'  ("{n}", {n}, "{imp["titles"][n]}")' for n, _ in imp['items']))
    w(']')
    w('')
    w('/-- classes tested by the `isinstance` chain of `_compile_dispatch_ql`, in chain order -/')
    w('inductive StmtClass where')
    for c in chain:
        w(f'  | {c}')
    w('  deriving DecidableEq, Repr')
    w('')
    w(f'def chain : List StmtClass := [{", ".join("." + c for c in chain)}]')
    w('')
    w('/-- `qltypes.ConfigScope` -/')
    w('inductive Scope where')
    for s in imp['scopes']:
        w(f'  | {s.capitalize()}')
    w('  deriving DecidableEq, Repr')
    w('')
    w('/-- class of the compiled query a migration command produced -/')
    w('inductive Result where')
    w('  | migrationControlQuery | dDLQuery | other')
    w('  deriving DecidableEq, Repr')
    w('')
    w('/-- what a branch looks at besides the class of the statement -/')
    w('inductive Cond where')
    w('  | result (r : Result)      -- isinstance(query, dbstate.X)')
    w('  | txAction (b : Bool)      -- query.tx_action')
    w('  | scope (s : Scope)        -- ql.scope is ConfigScope.X')
    w('  | notebook (b : Bool)      -- ctx.notebook')
    w('  | hasDml (b : Bool)        -- isinstance(query, (Query, SimpleQuery)) and query.has_dml')
    w('  deriving DecidableEq, Repr')
    w('')
    w('structure Row where')
    w('  cls : StmtClass')
    w('  conds : List Cond')
    w('  caps : Caps')
    w('')
    w('/-- every path through `_compile_dispatch_ql`: (class, conditions on the path, capability returned) -/')
    w('def table : List Row := [')
    w(',\n'.join(f'  ⟨.{c}, [{", ".join(_cond_lean(k, v) for k, v in n)}], {_caps_lean(caps)}⟩'
                 for c, n, caps in rows))
    w(']')
    w('')
    w('def lookup (c : StmtClass) (cs : List Cond) : Option Caps :=')
    w('  (table.find? fun r => r.cls == c && r.conds == cs).map (·.caps)')
    w('')
    w('/-- family of a statement class according to the `status.get_status` registry -/')
    w('inductive Family where')
    w('  | ddl | migration | tx | session | config | query | describe | analyze | administer | nostatus')
    w('  deriving DecidableEq, Repr')
    w('')
    w('/-- every concrete `qlast` statement class: (name, first class of the chain it is an instance of,')
    w('status family) -/')
    w('def classes : List (String × StmtClass × Family) := [')
    w(',\n'.join(f'  ("{n}", .{b}, .{f})' for n, b, f in imp['classes']))
    w(']')
    w('')
    w('end EdbVerif.Gen.Caps')
    unknown = [c for c in chain if c not in known_chain]
    if unknown:
        # still render (so that the Lean side breaks visibly) but tell the caller
        pass
    return '\n'.join(L) + '\n'


def generate():
    """-> (lean_text, info).  Raises ShapeError."""
    source = open(SRC).read()
    imp0 = collect_imported(None)
    chain, rows = extract_chain(source, imp0['scopes'])
    imp = collect_imported(chain)
    text = render(chain, rows, imp)
    info = {
        'chain': chain,
        'rows': [{'cls': c, 'conds': [[k, v] for k, v in n], 'caps': sorted(caps)} for c, n, caps in rows],
        'items': imp['items'], 'consts': imp['consts'], 'scopes': imp['scopes'], 'titles': imp['titles'],
        'classes': imp['classes'],
    }
    return text, info


def write():
    text, info = generate()
    old = open(OUT).read() if os.path.exists(OUT) else None
    if old != text:
        os.makedirs(os.path.dirname(OUT), exist_ok=True)
        tmp = OUT + f'.{os.getpid()}.tmp'
        with open(tmp, 'w') as f:
            f.write(text)
        os.replace(tmp, OUT)
    info['changed'] = old != text
    return info


if __name__ == '__main__':
    print(generate()[0])
