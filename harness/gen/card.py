"""Translator: cardinality algebra of the real compiler  ->  lean/EdbVerif/Gen/Card.lean

Source (read as TEXT with ``ast``; nothing is imported or executed):

* ``edb/edgeql/qltypes.py``         enums Cardinality / SchemaCardinality /
                                    TypeModifier / Multiplicity, the two dict
                                    literals ``_CARD_TO_TUPLE`` / ``_TUPLE_TO_CARD``
* ``edb/edgeql/compiler/inference/cardinality.py``
                                    CardinalityBound (+ methods), CardinalityBounds,
                                    the pure combinators
* ``edb/edgeql/compiler/inference/context.py``     MultiplicityInfo (fields)
* ``edb/edgeql/compiler/inference/multiplicity.py`` _max_/_min_multiplicity

The translation is a *whitelist*: every Python construct that is not listed
below aborts the translation with :class:`Untranslatable` (the check then
reports a broken correspondence, never a silent default).

expressions   names / module-level aliases of enum members, attribute access on
              enum classes and on NamedTuple / dataclass values, ``int(x)``,
              two-argument ``min``/``max`` on ints, one-argument ``min``/``max``
              over a sequence of ordered-enum values (raises ValueError on an
              empty one -> ``Except``), ``sum(seq, start=e)``, comparisons
              (``< <= > >= == != is / is not / in {..} / not in {..}``),
              ``and / or / not``, conditional expressions, tuples, NamedTuple /
              dataclass construction, calls of other translated functions and
              methods, ``[e for x in seq]``, truthiness of a sequence,
              ``D[k]`` for the two module-level dict literals,
              ``CardinalityBound(min(e, CB_MANY))``  (saturating constructor;
              shape-checked: member values are 0..k and CB_MANY is the largest)
statements    ``x = e``, ``a, b = e``, ``return e``, ``assert e, msg``,
              ``if c: ... else: ...``, docstrings,
              ``for x in seq: acc op= e``            (a fold)
idiom         ``c = list(zip(*(F(a) for a in args)))`` followed by
              ``lo, up = c if c else ((), ())``      (transpose of 2-field rows)

Functions that can raise (``assert``, ``max(())``) are emitted in the
``Except PyErr`` monad, everything else is a total ``def``.
The sentinel members ``Cardinality.UNKNOWN`` / ``SchemaCardinality.Unknown`` are
outside the translated domain: the Lean enums are exactly the key sets of the
two dict literals (shape-checked), which is what makes the table lookups total.
"""
from __future__ import annotations

import ast
import hashlib
import os
import re
from typing import Any, Optional

QLTYPES = 'edb/edgeql/qltypes.py'
CARD = 'edb/edgeql/compiler/inference/cardinality.py'
MULT = 'edb/edgeql/compiler/inference/multiplicity.py'
ICTX = 'edb/edgeql/compiler/inference/context.py'

OUT_REL = 'EdbVerif/Gen/Card.lean'

# what must exist (shape check).  (file, kind, name)
EXPECTED_FUNCS = [
    (CARD, '_card_to_bounds'), (CARD, '_bounds_to_card'), (CARD, '_card_unzip'),
    (CARD, 'product'), (CARD, 'cartesian_cardinality'), (CARD, 'max_cardinality'),
    (CARD, 'min_cardinality'), (CARD, '_union_cardinality'), (CARD, '_typemod_to_card'),
    (CARD, 'is_subset_cardinality'),
    (MULT, '_max_multiplicity'), (MULT, '_min_multiplicity'),
]
EXPECTED_METHODS = {
    'CardinalityBound': ['__add__', '__mul__', 'as_required', 'as_schema_cardinality',
                         'from_required', 'from_schema_value'],
    'Cardinality': ['is_single', 'is_multi', 'can_be_zero', 'to_schema_value', 'from_schema_value'],
    'Multiplicity': ['is_empty', 'is_unique', 'is_duplicate'],
    'SchemaCardinality': [],
    'TypeModifier': [],
}
SENTINELS = {'Cardinality': {'UNKNOWN'}, 'SchemaCardinality': {'Unknown'}, 'Multiplicity': {'UNKNOWN'}}


class Untranslatable(Exception):
    pass


def _loc(node, fn):
    return f'{fn}:{getattr(node, "lineno", "?")}'


def camel(name: str) -> str:
    name = name.strip('_')
    parts = name.split('_')
    return parts[0] + ''.join(p[:1].upper() + p[1:] for p in parts[1:])


# ------------------------------------------------------------------ types
# 'Bool' | 'Nat' | ('enum', Name) | ('struct', Name) | ('list', T) | ('tuple', (T..))
def ty_lean(t) -> str:
    if t in ('Bool', 'Nat'):
        return t
    k = t[0]
    if k in ('enum', 'struct'):
        return t[1]
    if k == 'list':
        return f'List {ty_atom(t[1])}'
    if k == 'tuple':
        return ' × '.join(ty_atom(x) for x in t[1])
    raise Untranslatable(f'type {t!r}')


def ty_atom(t) -> str:
    s = ty_lean(t)
    return s if re.fullmatch(r'\w+', s) else f'({s})'


class Enum:
    def __init__(self, name, members, ordered, int_values, methods, src):
        self.name = name
        self.members = members          # [(name, python value)]
        self.ordered = ordered          # 'value' | 'index' | None
        self.int_values = int_values
        self.methods = methods          # name -> (FunctionDef, kind) kind in inst/cls
        self.src = src

    def key_of(self, m) -> int:
        for i, (n, v) in enumerate(self.members):
            if n == m:
                return v if self.ordered == 'value' else i
        raise KeyError(m)


class Struct:
    def __init__(self, name, fields, src):
        self.name = name
        self.fields = fields            # [(name, type, default lean or None)]
        self.src = src


class Translator:
    def __init__(self, repo: str):
        self.repo = repo
        self.src: dict[str, str] = {}
        self.mod: dict[str, ast.Module] = {}
        for f in (QLTYPES, CARD, MULT, ICTX):
            p = os.path.join(repo, f)
            self.src[f] = open(p).read()
            self.mod[f] = ast.parse(self.src[f], filename=p)
        self.enums: dict[str, Enum] = {}
        self.structs: dict[str, Struct] = {}
        self.aliases: dict[str, dict[str, tuple[str, str]]] = {f: {} for f in self.mod}
        self.dicts: dict[str, Any] = {}
        self.funcs: dict[str, dict] = {}        # lean name -> info
        self.out: list[str] = []
        self.tmp = 0

    # ---------------------------------------------------------------- scan
    def find_class(self, f, name) -> ast.ClassDef:
        for n in self.mod[f].body:
            if isinstance(n, ast.ClassDef) and n.name == name:
                return n
        raise Untranslatable(f'{f}: class {name} is gone')

    def find_func(self, f, name) -> ast.FunctionDef:
        for n in self.mod[f].body:
            if isinstance(n, ast.FunctionDef) and n.name == name:
                return n
        raise Untranslatable(f'{f}: function {name} is gone')

    def scan_enum(self, f, name):
        c = self.find_class(f, name)
        bases = [ast.unparse(b) for b in c.bases]
        if not any(b in ('enum.Enum', 's_enum.StrEnum', 'StrEnum') for b in bases):
            raise Untranslatable(f'{f}: class {name} is no longer an Enum (bases {bases})')
        ordered = None
        if 'int' in bases:
            ordered = 'value'
        elif any(b.endswith('OrderedEnumMixin') for b in bases):
            ordered = 'index'
        members, methods = [], {}
        for n in c.body:
            if isinstance(n, ast.Assign) and len(n.targets) == 1 and isinstance(n.targets[0], ast.Name) \
                    and isinstance(n.value, ast.Constant):
                members.append((n.targets[0].id, n.value.value))
            elif isinstance(n, ast.FunctionDef):
                decos = [ast.unparse(d) for d in n.decorator_list]
                if decos == ['classmethod']:
                    methods[n.name] = (n, 'cls')
                elif not decos:
                    methods[n.name] = (n, 'inst')
                else:
                    raise Untranslatable(f'{_loc(n, f)}: decorator {decos} on {name}.{n.name}')
            elif isinstance(n, ast.Expr) and isinstance(n.value, ast.Constant):
                pass        # docstring
            else:
                raise Untranslatable(f'{_loc(n, f)}: unexpected statement in enum {name}')
        sent = SENTINELS.get(name, set())
        if not sent <= {m for m, _ in members}:
            raise Untranslatable(f'{f}: sentinel members {sent} of {name} are gone')
        members = [(m, v) for m, v in members if m not in sent]
        if ordered == 'value':
            vals = [v for _, v in members]
            if vals != list(range(len(vals))):
                raise Untranslatable(f'{f}: {name} member values {vals} are not 0..k '
                                     '(the saturating-constructor idiom needs that)')
        for m in EXPECTED_METHODS.get(name, []):
            if m not in methods:
                raise Untranslatable(f'{f}: method {name}.{m} is gone')
        self.enums[name] = Enum(name, members, ordered, ordered == 'value', methods, f)

    def scan_aliases(self, f):
        """module-level  NAME = <Enum>.<MEMBER>   (possibly via qltypes.)"""
        for n in self.mod[f].body:
            if isinstance(n, ast.Assign) and len(n.targets) == 1 and isinstance(n.targets[0], ast.Name):
                m = self.enum_member(n.value, f, quiet=True)
                if m:
                    self.aliases[f][n.targets[0].id] = m

    def enum_member(self, e, f, quiet=False) -> Optional[tuple[str, str]]:
        if isinstance(e, ast.Attribute) and isinstance(e.value, (ast.Attribute, ast.Name)):
            cls = e.value.attr if isinstance(e.value, ast.Attribute) else e.value.id
            if isinstance(e.value, ast.Attribute):
                if not (isinstance(e.value.value, ast.Name) and e.value.value.id in ('qltypes', 'ft')):
                    return None
            if cls in self.enums:
                if any(e.attr == m for m, _ in self.enums[cls].members):
                    return (cls, e.attr)
                if e.attr in SENTINELS.get(cls, ()):
                    if quiet:
                        return None
                    raise Untranslatable(f'{_loc(e, f)}: sentinel {cls}.{e.attr} used in translated code')
        return None

    def scan_dict(self, f, name):
        for n in self.mod[f].body:
            if isinstance(n, ast.Assign) and len(n.targets) == 1 and isinstance(n.targets[0], ast.Name) \
                    and n.targets[0].id == name:
                if not isinstance(n.value, ast.Dict):
                    raise Untranslatable(f'{_loc(n, f)}: {name} is no longer a dict literal')
                return n.value
        raise Untranslatable(f'{f}: {name} is gone')

    # ---------------------------------------------------------- annotations
    def ann(self, a, f):
        s = ast.unparse(a)
        s = s.replace('qltypes.', '').replace('inf_ctx.', '').replace('typing.', '')
        return self.ann_s(s, f, a)

    def ann_s(self, s, f, node):
        s = s.strip()
        if s == 'bool':
            return 'Bool'
        if s == 'int':
            return 'Nat'
        if s in self.enums:
            return ('enum', s)
        if s in self.structs:
            return ('struct', s)
        m = re.fullmatch(r'(?:Iterable|Sequence|List|list)\[(.*)\]', s)
        if m:
            return ('list', self.ann_s(m.group(1), f, node))
        m = re.fullmatch(r'(?:tuple|Tuple)\[(.*), \.\.\.\]', s)
        if m and self._balanced(m.group(1)):
            return ('list', self.ann_s(m.group(1), f, node))
        m = re.fullmatch(r'(?:tuple|Tuple)\[(.*)\]', s)
        if m:
            return ('tuple', tuple(self.ann_s(x, f, node) for x in self._split(m.group(1))))
        raise Untranslatable(f'{_loc(node, f)}: type annotation {s!r} outside the subset')

    @staticmethod
    def _balanced(s):
        d = 0
        for ch in s:
            d += ch == '['
            d -= ch == ']'
            if d == 0 and ch == ',':
                return False
        return True

    @staticmethod
    def _split(s):
        out, d, cur = [], 0, ''
        for ch in s:
            if ch == '[':
                d += 1
            if ch == ']':
                d -= 1
            if ch == ',' and d == 0:
                out.append(cur)
                cur = ''
            else:
                cur += ch
        out.append(cur)
        return [x.strip() for x in out]

    # ------------------------------------------------------------ emission
    def emit(self, s=''):
        self.out.append(s)

    def fresh(self, base='t'):
        self.tmp += 1
        return f'{base}_{self.tmp}'

    def gen_enum(self, e: Enum):
        self.emit(f'/-- `{e.name}` ({e.src}); members in definition order'
                  + (f', sentinels {sorted(SENTINELS[e.name])} excluded' if e.name in SENTINELS else '') + ' -/')
        self.emit(f'inductive {e.name} where')
        for m, _ in e.members:
            self.emit(f'  | {m}')
        self.emit('deriving DecidableEq, Repr')
        self.emit()
        self.emit(f'def {e.name}.all : List {e.name} := [' + ', '.join(f'.{m}' for m, _ in e.members) + ']')
        self.emit()
        self.emit(f'def {e.name}.pyName : {e.name} → String')
        for m, _ in e.members:
            self.emit(f'  | .{m} => "{m}"')
        self.emit()
        if e.ordered:
            what = 'the member value (int subclass)' if e.ordered == 'value' else \
                'the definition index (OrderedEnumMixin._index_of)'
            self.emit(f'/-- comparison key of `{e.name}`: {what} -/')
            self.emit(f'def {e.name}.toNat : {e.name} → Nat')
            for m, _ in e.members:
                self.emit(f'  | .{m} => {e.key_of(m)}')
            self.emit()
        if e.ordered == 'value':
            top = e.members[-1][0]
            self.emit(f'/-- `{e.name}(min(n, {top}))`: the constructor applied to a value already clamped '
                      f'to the largest member value {e.key_of(top)} -/')
            self.emit(f'def {e.name}.sat (n : Nat) : {e.name} :=')
            for m, v in e.members[:-1]:
                self.emit(f'  if n = {v} then .{m} else')
            self.emit(f'  .{top}')
            self.emit()

    # ---------------------------------------------------------- expressions
    class Fn:
        """per-function translation state"""
        def __init__(self, file, partial, locals_, selfcls=None):
            self.file = file
            self.partial = partial
            self.locals = dict(locals_)
            self.selfcls = selfcls
            self.binds: list[str] = []

    def is_partial_callee(self, lname):
        info = self.funcs.get(lname)
        if info is None:
            raise Untranslatable(f'call of {lname} before its translation')
        return info['partial']

    def coerce(self, code, t, want, node, fn):
        if want is None or t == want:
            return code
        if want == 'Nat' and isinstance(t, tuple) and t[0] == 'enum' and self.enums[t[1]].int_values:
            return f'{ty_atom(t)}.toNat {self.par(code)}'
        if isinstance(want, tuple) and want[0] == 'list' and isinstance(t, tuple) and t[0] == 'list' \
                and t[1] is None:
            return code
        raise Untranslatable(f'{_loc(node, fn.file)}: expected {want}, got {t} in `{ast.unparse(node)}`')

    @staticmethod
    def par(code):
        return code if re.fullmatch(r'[\w.]+', code) or (code.startswith('(') and code.endswith(')')
                                                          and code.count('(') == 1) else f'({code})'

    def expr(self, e, fn: 'Translator.Fn', want=None):
        code, t = self._expr(e, fn, want)
        return self.coerce(code, t, want, e, fn), (want if want is not None else t)

    def ordkey(self, code, t, node, fn):
        if t == 'Nat':
            return code
        if isinstance(t, tuple) and t[0] == 'enum' and self.enums[t[1]].ordered:
            return f'{t[1]}.toNat {self.par(code)}'
        raise Untranslatable(f'{_loc(node, fn.file)}: ordering on {t}')

    def _expr(self, e, fn, want=None):
        f = fn.file
        if isinstance(e, ast.Constant):
            if e.value is True or e.value is False:
                return ('true' if e.value else 'false'), 'Bool'
            if isinstance(e.value, int) and e.value >= 0:
                return str(e.value), 'Nat'
            raise Untranslatable(f'{_loc(e, f)}: constant {e.value!r}')
        if isinstance(e, ast.Name):
            if e.id in fn.locals:
                return e.id if e.id != 'self' else 'self', fn.locals[e.id]
            if e.id in self.aliases[f]:
                c, m = self.aliases[f][e.id]
                return f'{c}.{m}', ('enum', c)
            raise Untranslatable(f'{_loc(e, f)}: unknown name {e.id}')
        m = self.enum_member(e, f)
        if m:
            return f'{m[0]}.{m[1]}', ('enum', m[0])
        if isinstance(e, ast.Attribute):
            code, t = self._expr(e.value, fn)
            if isinstance(t, tuple) and t[0] == 'struct':
                for (fname, ft, _) in self.structs[t[1]].fields:
                    if fname == e.attr:
                        return f'{self.par(code)}.{fname}', ft
            raise Untranslatable(f'{_loc(e, f)}: attribute {ast.unparse(e)}')
        if isinstance(e, ast.Tuple):
            if not e.elts:
                return '[]', ('list', None)
            parts = [self._expr(x, fn) for x in e.elts]
            if all(p[1] == ('list', None) for p in parts) and isinstance(want, tuple) and want[0] == 'tuple':
                return '(' + ', '.join(p[0] for p in parts) + ')', want
            return '(' + ', '.join(p[0] for p in parts) + ')', ('tuple', tuple(p[1] for p in parts))
        if isinstance(e, ast.UnaryOp) and isinstance(e.op, ast.Not):
            return f'!{self.par(self.truth(e.operand, fn))}', 'Bool'
        if isinstance(e, ast.BoolOp):
            op = ' && ' if isinstance(e.op, ast.And) else ' || '
            return '(' + op.join(self.par(self.truth(v, fn)) for v in e.values) + ')', 'Bool'
        if isinstance(e, ast.IfExp):
            c = self.truth(e.test, fn)
            a, ta = self._expr(e.body, fn, want)
            b, tb = self._expr(e.orelse, fn, want if want is not None else ta)
            if ta == ('list', None) or (isinstance(ta, tuple) and ta[0] == 'tuple' and tb != ta):
                ta, tb = tb, tb
            if tb == ('list', None):
                tb = ta
            if ta != tb:
                raise Untranslatable(f'{_loc(e, f)}: branches of conditional have types {ta} / {tb}')
            return f'(if {c} then {a} else {b})', ta
        if isinstance(e, ast.Compare):
            if len(e.ops) != 1:
                raise Untranslatable(f'{_loc(e, f)}: chained comparison')
            op, l, r = e.ops[0], e.left, e.comparators[0]
            if isinstance(op, (ast.In, ast.NotIn)):
                if not isinstance(r, ast.Set):
                    raise Untranslatable(f'{_loc(e, f)}: `in` only on a set literal')
                lc, lt = self._expr(l, fn)
                alts = [self.expr(x, fn, lt)[0] for x in r.elts]
                c = '(' + ' || '.join(f'{lc} == {a}' for a in alts) + ')'
                return (c if isinstance(op, ast.In) else f'!{c}'), 'Bool'
            lc, lt = self._expr(l, fn)
            rc, rt = self._expr(r, fn)
            if isinstance(op, (ast.Is, ast.Eq, ast.IsNot, ast.NotEq)):
                if lt != rt:
                    raise Untranslatable(f'{_loc(e, f)}: equality between {lt} and {rt}')
                if isinstance(op, (ast.Is, ast.IsNot)) and not (isinstance(lt, tuple) and lt[0] == 'enum'):
                    raise Untranslatable(f'{_loc(e, f)}: `is` on non-enum')
                return (f'({lc} == {rc})' if isinstance(op, (ast.Is, ast.Eq)) else f'({lc} != {rc})'), 'Bool'
            sym = {ast.Lt: '<', ast.LtE: '≤', ast.Gt: '>', ast.GtE: '≥'}.get(type(op))
            if sym is None:
                raise Untranslatable(f'{_loc(e, f)}: comparison operator')
            if lt != rt and not ('Nat' in (lt, rt)):
                raise Untranslatable(f'{_loc(e, f)}: ordering between {lt} and {rt}')
            return f'decide ({self.ordkey(lc, lt, e, fn)} {sym} {self.ordkey(rc, rt, e, fn)})', 'Bool'
        if isinstance(e, ast.BinOp) and isinstance(e.op, (ast.Add, ast.Mult)):
            lc, lt = self._expr(e.left, fn)
            rc, rt = self._expr(e.right, fn)
            sym = '+' if isinstance(e.op, ast.Add) else '*'
            if lt == 'Nat':
                rc = self.coerce(rc, rt, 'Nat', e, fn)
                return f'({lc} {sym} {rc})', 'Nat'
            raise Untranslatable(f'{_loc(e, f)}: arithmetic on {lt}')
        if isinstance(e, ast.ListComp):
            if len(e.generators) != 1 or e.generators[0].ifs or not isinstance(e.generators[0].target, ast.Name):
                raise Untranslatable(f'{_loc(e, f)}: comprehension shape')
            g = e.generators[0]
            sc, st = self._expr(g.iter, fn)
            if not (isinstance(st, tuple) and st[0] == 'list'):
                raise Untranslatable(f'{_loc(e, f)}: comprehension over {st}')
            fn2 = Translator.Fn(fn.file, fn.partial, fn.locals | {g.target.id: st[1]}, fn.selfcls)
            bc, bt = self._expr(e.elt, fn2)
            if fn2.binds:
                raise Untranslatable(f'{_loc(e, f)}: partial expression inside a comprehension')
            return f'{self.par(sc)}.map (fun {g.target.id} => {bc})', ('list', bt)
        if isinstance(e, ast.Subscript) and isinstance(e.value, ast.Name) and e.value.id in self.dicts:
            d = self.dicts[e.value.id]
            kc, kt = self._expr(e.slice, fn)
            if kt != d['key']:
                raise Untranslatable(f'{_loc(e, f)}: key type {kt} for {e.value.id}')
            return f'{d["lean"]} {self.par(kc)}', d['val']
        if isinstance(e, ast.Call):
            return self.call(e, fn, want)
        raise Untranslatable(f'{_loc(e, f)}: expression `{ast.unparse(e)}` ({type(e).__name__}) outside the subset')

    def truth(self, e, fn) -> str:
        code, t = self._expr(e, fn)
        if t == 'Bool':
            return code
        if isinstance(t, tuple) and t[0] == 'list':
            return f'!{self.par(code)}.isEmpty'
        raise Untranslatable(f'{_loc(e, fn.file)}: truthiness of {t}')

    def bind_partial(self, code, fn, node):
        if not fn.partial:
            raise Untranslatable(f'{_loc(node, fn.file)}: raising expression `{ast.unparse(node)}` in a '
                                 'function classified as total')
        v = self.fresh('v')
        fn.binds.append(f'let {v} ← {code}')
        return v

    def call(self, e: ast.Call, fn, want):
        f = fn.file
        fu = e.func
        name = fu.id if isinstance(fu, ast.Name) else None
        # ---- builtins
        if name == 'int' and len(e.args) == 1 and not e.keywords:
            c, t = self._expr(e.args[0], fn)
            return self.coerce(c, t, 'Nat', e, fn), 'Nat'
        if name in ('min', 'max') and len(e.args) == 2 and not e.keywords:
            a = self.expr(e.args[0], fn, 'Nat')[0]
            b = self.expr(e.args[1], fn, 'Nat')[0]
            return f'(Nat.{name} {self.par(a)} {self.par(b)})', 'Nat'
        if name in ('min', 'max') and len(e.args) == 1 and not e.keywords:
            c, t = self._expr(e.args[0], fn)
            if not (isinstance(t, tuple) and t[0] == 'list' and isinstance(t[1], tuple) and t[1][0] == 'enum'
                    and self.enums[t[1][1]].ordered):
                raise Untranslatable(f'{_loc(e, f)}: {name}() over {t}')
            v = self.bind_partial(f'py{name.capitalize()}By {t[1][1]}.toNat {self.par(c)}', fn, e)
            return v, t[1]
        if name == 'sum' and len(e.args) == 1 and [k.arg for k in e.keywords] == ['start']:
            c, t = self._expr(e.args[0], fn)
            s, st = self._expr(e.keywords[0].value, fn)
            if not (isinstance(t, tuple) and t[0] == 'list' and t[1] == st and isinstance(st, tuple)
                    and '__add__' in self.enums[st[1]].methods):
                raise Untranslatable(f'{_loc(e, f)}: sum() over {t} starting at {st}')
            add = f'{st[1]}.add'
            if self.is_partial_callee(add):
                raise Untranslatable(f'{_loc(e, f)}: sum() with a raising __add__')
            ety = self.funcs[add]['params'][1][1]
            x = self.coerce('x', st, ety, e, fn)
            return f'{self.par(c)}.foldl (fun acc x => {add} acc {self.par(x)}) {s}', st
        # ---- saturating constructor idiom
        if name in self.enums and self.enums[name].int_values and len(e.args) == 1:
            a = e.args[0]
            top = self.enums[name].members[-1][0]
            if isinstance(a, ast.Call) and isinstance(a.func, ast.Name) and a.func.id == 'min' \
                    and len(a.args) == 2 and self._expr(a.args[1], fn)[0] == f'{name}.{top}':
                inner = self.expr(a.args[0], fn, 'Nat')[0]
                return f'{name}.sat {self.par(inner)}', ('enum', name)
            raise Untranslatable(f'{_loc(e, f)}: `{ast.unparse(e)}`: constructor from int is only translated in the '
                                 f'clamped form {name}(min(·, {top}))')
        # ---- struct construction
        sname = None
        if name in self.structs:
            sname = name
        elif isinstance(fu, ast.Attribute) and fu.attr in self.structs and isinstance(fu.value, ast.Name) \
                and fu.value.id in ('inf_ctx', 'inference_context'):
            sname = fu.attr
        if sname:
            st = self.structs[sname]
            vals: dict[str, str] = {}
            for (fname, ft, _), a in zip(st.fields, e.args):
                vals[fname] = self.expr(a, fn, ft)[0]
            for k in e.keywords:
                ft = dict((x[0], x[1]) for x in st.fields).get(k.arg)
                if ft is None:
                    raise Untranslatable(f'{_loc(e, f)}: unknown field {k.arg} of {sname}')
                vals[k.arg] = self.expr(k.value, fn, ft)[0]
            for (fname, ft, dflt) in st.fields:
                if fname not in vals:
                    if dflt is None:
                        raise Untranslatable(f'{_loc(e, f)}: field {fname} of {sname} not given')
            return '{ ' + ', '.join(f'{k} := {v}' for k, v in vals.items()) + f' : {sname} }}', ('struct', sname)
        # ---- module-level function
        if name is not None:
            lname = camel(name)
            if lname not in self.funcs:
                raise Untranslatable(f'{_loc(e, f)}: call of `{name}` which is not a translated function')
            return self.apply(lname, [*e.args], e, fn)
        # ---- methods / classmethods
        if isinstance(fu, ast.Attribute):
            # classmethod on an enum class:  CardinalityBound.from_required(x) / qltypes.Cardinality.f(..)
            cls = None
            if isinstance(fu.value, ast.Name) and fu.value.id in self.enums:
                cls = fu.value.id
            elif isinstance(fu.value, ast.Attribute) and fu.value.attr in self.enums \
                    and isinstance(fu.value.value, ast.Name) and fu.value.value.id in ('qltypes', 'ft'):
                cls = fu.value.attr
            if cls is not None:
                meth = self.enums[cls].methods.get(fu.attr)
                if meth is None or meth[1] != 'cls':
                    raise Untranslatable(f'{_loc(e, f)}: {cls}.{fu.attr} is not a classmethod')
                return self.apply(f'{cls}.{camel(fu.attr)}', [*e.args], e, fn)
            rc, rt = self._expr(fu.value, fn)
            if isinstance(rt, tuple) and rt[0] == 'enum':
                meth = self.enums[rt[1]].methods.get(fu.attr)
                if meth is None or meth[1] != 'inst':
                    raise Untranslatable(f'{_loc(e, f)}: {rt[1]}.{fu.attr} is not an instance method')
                return self.apply(f'{rt[1]}.{camel(fu.attr)}', [*e.args], e, fn, recv=rc)
        raise Untranslatable(f'{_loc(e, f)}: call `{ast.unparse(e)}` outside the subset')

    def apply(self, lname, args, node, fn, recv=None):
        if lname not in self.funcs:
            raise Untranslatable(f'{_loc(node, fn.file)}: `{lname}` used before its translation')
        info = self.funcs[lname]
        params = info['params'][1:] if recv is not None else info['params']
        if node.keywords or len(args) != len(params):
            raise Untranslatable(f'{_loc(node, fn.file)}: arity / keywords in `{ast.unparse(node)}`')
        cs = [recv] if recv is not None else []
        for a, (pn, pt) in zip(args, params):
            cs.append(self.expr(a, fn, pt)[0])
        code = lname + ''.join(' ' + self.par(c) for c in cs)
        if info['partial']:
            return self.bind_partial(code, fn, node), info['ret']
        return code, info['ret']

    # ----------------------------------------------------------- statements
    def can_raise(self, fdef: ast.FunctionDef, f) -> bool:
        for n in ast.walk(fdef):
            if isinstance(n, (ast.Assert, ast.Raise)):
                return True
            if isinstance(n, ast.Call) and isinstance(n.func, ast.Name):
                if n.func.id in ('min', 'max') and len(n.args) == 1:
                    return True
                ln = camel(n.func.id)
                if ln in self.funcs and self.funcs[ln]['partial']:
                    return True
        return False

    def block(self, stmts, fn, ind, fname) -> list[str]:
        """translate a statement list that ends in a return on every path"""
        f = fn.file
        out: list[str] = []
        pad = '  ' * ind

        def flush():
            for b in fn.binds:
                out.append(pad + b)
            fn.binds.clear()

        i = 0
        while i < len(stmts):
            s = stmts[i]
            if isinstance(s, ast.Expr) and isinstance(s.value, ast.Constant) and isinstance(s.value.value, str):
                i += 1
                continue
            # --- idiom: transpose
            if (isinstance(s, ast.Assign) and i + 1 < len(stmts) and self.is_zipstar(s)
                    and self.is_unpack_fallback(stmts[i + 1], s.targets[0].id)):
                gen = s.value.args[0].args[0].value          # the generator expression
                g = gen.generators[0]
                sc, st = self._expr(g.iter, fn)
                if not (isinstance(st, tuple) and st[0] == 'list'):
                    raise Untranslatable(f'{_loc(s, f)}: zip(*) over {st}')
                fn2 = Translator.Fn(fn.file, False, fn.locals | {g.target.id: st[1]}, fn.selfcls)
                rc, rt = self._expr(gen.elt, fn2)
                if not (isinstance(rt, tuple) and rt[0] == 'struct' and len(self.structs[rt[1]].fields) == 2):
                    raise Untranslatable(f'{_loc(s, f)}: zip(*) idiom needs rows of a 2-field NamedTuple, got {rt}')
                (f0, t0, _), (f1, t1, _) = self.structs[rt[1]].fields
                a, b = [x.id for x in stmts[i + 1].targets[0].elts]
                out.append(pad + f'-- idiom: list(zip(*rows)) with the `((), ())` fallback = column-wise projection')
                out.append(pad + f'let {a} := {self.par(sc)}.map (fun {g.target.id} => ({rc}).{f0})')
                out.append(pad + f'let {b} := {self.par(sc)}.map (fun {g.target.id} => ({rc}).{f1})')
                fn.locals[a] = ('list', t0)
                fn.locals[b] = ('list', t1)
                i += 2
                continue
            if isinstance(s, ast.Assign) and len(s.targets) == 1:
                tg = s.targets[0]
                if isinstance(tg, ast.Name):
                    c, t = self._expr(s.value, fn)
                    flush()
                    out.append(pad + f'let {tg.id} := {c}')
                    fn.locals[tg.id] = t
                elif isinstance(tg, ast.Tuple) and all(isinstance(x, ast.Name) for x in tg.elts):
                    c, t = self._expr(s.value, fn)
                    flush()
                    names = [x.id for x in tg.elts]
                    if isinstance(t, tuple) and t[0] == 'tuple' and len(t[1]) == len(names):
                        out.append(pad + f'let ({", ".join(names)}) := {c}')
                        for n_, t_ in zip(names, t[1]):
                            fn.locals[n_] = t_
                    elif isinstance(t, tuple) and t[0] == 'struct' and len(self.structs[t[1]].fields) == len(names):
                        tmp = self.fresh('s')
                        out.append(pad + f'let {tmp} := {c}')
                        for n_, (fl, ft, _) in zip(names, self.structs[t[1]].fields):
                            out.append(pad + f'let {n_} := {tmp}.{fl}')
                            fn.locals[n_] = ft
                    else:
                        raise Untranslatable(f'{_loc(s, f)}: destructuring of {t}')
                else:
                    raise Untranslatable(f'{_loc(s, f)}: assignment target')
                i += 1
                continue
            if isinstance(s, ast.For):
                # fold:  for x in seq: acc op= e
                if not (isinstance(s.target, ast.Name) and len(s.body) == 1 and not s.orelse
                        and isinstance(s.body[0], ast.AugAssign) and isinstance(s.body[0].target, ast.Name)
                        and s.body[0].target.id in fn.locals):
                    raise Untranslatable(f'{_loc(s, f)}: only `for x in seq: acc op= e` loops are translated')
                aug = s.body[0]
                acc = aug.target.id
                at = fn.locals[acc]
                sc, st = self._expr(s.iter, fn)
                flush()
                if not (isinstance(st, tuple) and st[0] == 'list'):
                    raise Untranslatable(f'{_loc(s, f)}: loop over {st}')
                meth = {ast.Mult: '__mul__', ast.Add: '__add__'}.get(type(aug.op))
                if not (meth and isinstance(at, tuple) and at[0] == 'enum' and meth in self.enums[at[1]].methods):
                    raise Untranslatable(f'{_loc(s, f)}: augmented assignment on {at}')
                if '__i' + meth[2:] in self.enums[at[1]].methods:
                    raise Untranslatable(f'{_loc(s, f)}: in-place operator defined')
                ln = f'{at[1]}.{camel(meth)}'
                if self.is_partial_callee(ln):
                    raise Untranslatable(f'{_loc(s, f)}: raising operator in a loop')
                fn2 = Translator.Fn(fn.file, False, fn.locals | {s.target.id: st[1]}, fn.selfcls)
                ec = self.expr(aug.value, fn2, self.funcs[ln]['params'][1][1])[0]
                out.append(pad + f'let {acc} := {self.par(sc)}.foldl (fun {acc} {s.target.id} => {ln} {acc} {self.par(ec)}) {acc}')
                i += 1
                continue
            if isinstance(s, ast.Assert):
                c = self.truth(s.test, fn)
                flush()
                if not fn.partial:
                    raise Untranslatable(f'{_loc(s, f)}: assert in a function classified as total')
                out.append(pad + f'if !{self.par(c)} then throw PyErr.AssertionError')
                i += 1
                continue
            if isinstance(s, ast.Return):
                if s.value is None:
                    raise Untranslatable(f'{_loc(s, f)}: bare return')
                c, t = self.expr(s.value, fn, fn.ret)
                flush()
                out.append(pad + (f'return {c}' if fn.partial else c))
                if i + 1 != len(stmts):
                    raise Untranslatable(f'{_loc(s, f)}: code after return')
                return out
            if isinstance(s, ast.If):
                c = self.truth(s.test, fn)
                flush()
                rest = stmts[i + 1:]
                if s.orelse:
                    # statements after an if/else whose branches fall through are
                    # translated by copying the continuation into both branches
                    def ends(b):
                        return isinstance(b[-1], (ast.Return, ast.If))
                    l1 = dict(fn.locals)
                    a = self.block(s.body + ([] if ends(s.body) else rest), fn, ind + 1, fname)
                    fn.locals = dict(l1)
                    b = self.block(s.orelse + ([] if ends(s.orelse) else rest), fn, ind + 1, fname)
                    if rest and ends(s.body) and ends(s.orelse):
                        raise Untranslatable(f'{_loc(s, f)}: unreachable statements after if/else')
                    out.append(pad + f'if {c} then')
                    out += a
                    out.append(pad + 'else')
                    out += b
                    return out
                raise Untranslatable(f'{_loc(s, f)}: `if` without else')
            raise Untranslatable(f'{_loc(s, f)}: statement `{type(s).__name__}` outside the subset')
        raise Untranslatable(f'{f}: function {fname} does not end in a return')

    @staticmethod
    def is_zipstar(s):
        v = s.value
        return (isinstance(s.targets[0], ast.Name) and isinstance(v, ast.Call) and isinstance(v.func, ast.Name)
                and v.func.id == 'list' and len(v.args) == 1 and isinstance(v.args[0], ast.Call)
                and isinstance(v.args[0].func, ast.Name) and v.args[0].func.id == 'zip'
                and len(v.args[0].args) == 1 and isinstance(v.args[0].args[0], ast.Starred)
                and isinstance(v.args[0].args[0].value, ast.GeneratorExp)
                and len(v.args[0].args[0].value.generators) == 1
                and not v.args[0].args[0].value.generators[0].ifs
                and isinstance(v.args[0].args[0].value.generators[0].target, ast.Name))

    @staticmethod
    def is_unpack_fallback(s, name):
        return (isinstance(s, ast.Assign) and len(s.targets) == 1 and isinstance(s.targets[0], ast.Tuple)
                and len(s.targets[0].elts) == 2 and all(isinstance(x, ast.Name) for x in s.targets[0].elts)
                and isinstance(s.value, ast.IfExp) and isinstance(s.value.test, ast.Name)
                and s.value.test.id == name and isinstance(s.value.body, ast.Name) and s.value.body.id == name
                and ast.unparse(s.value.orelse) == '((), ())')

    def gen_func(self, f, fdef: ast.FunctionDef, lname, selfcls=None, kind='func', param_override=None):
        params = []
        args = fdef.args
        if args.vararg or args.kwarg or args.kwonlyargs or args.defaults:
            raise Untranslatable(f'{_loc(fdef, f)}: parameter shape of {fdef.name}')
        pl = list(args.args)
        if kind == 'inst':
            if not pl or pl[0].arg != 'self':
                raise Untranslatable(f'{_loc(fdef, f)}: method without self')
            params.append(('self', ('enum', selfcls)))
            pl = pl[1:]
        elif kind == 'cls':
            pl = pl[1:]
        for p in pl:
            if p.annotation is None:
                raise Untranslatable(f'{_loc(fdef, f)}: parameter {p.arg} of {fdef.name} has no annotation')
            params.append((p.arg, self.ann(p.annotation, f)))
        if fdef.returns is None:
            raise Untranslatable(f'{_loc(fdef, f)}: {fdef.name} has no return annotation')
        ret = self.ann(fdef.returns, f)
        partial = self.can_raise(fdef, f)
        fn = Translator.Fn(f, partial, dict(params), selfcls)
        fn.ret = ret
        # register first (no recursion expected, but methods may call each other: is_multi -> is_single)
        body = self.block(fdef.body, fn, 1, fdef.name)
        sig = ' '.join(f'({n} : {ty_lean(t)})' for n, t in params)
        rty = f'Except PyErr {ty_atom(ret)}' if partial else ty_lean(ret)
        line = fdef.lineno
        self.emit(f'/-- `{(selfcls + ".") if selfcls else ""}{fdef.name}` ({f}) -/')
        self.emit(f'def {lname} {sig} : {rty} :=' + (' do' if partial else ''))
        self.out += body
        self.emit()
        self.funcs[lname] = {'params': params, 'ret': ret, 'partial': partial, 'src': f'{f}:{line}',
                             'py': ((selfcls + '.') if selfcls else '') + fdef.name}

    def gen_dict(self, f, name, lean, key_t, val_t):
        d = self.scan_dict(f, name)
        fn = Translator.Fn(f, False, {})
        rows = []
        for k, v in zip(d.keys, d.values):
            kc, kt = self._expr(k, fn)
            vc, vt = self._expr(v, fn)
            if kt != key_t or vt != val_t:
                raise Untranslatable(f'{_loc(k, f)}: entry of {name} has types {kt} -> {vt}')
            rows.append((kc, vc))
        # totality over the key type
        def inhabitants(t):
            if t == 'Bool':
                return ['false', 'true']
            if t[0] == 'enum':
                return [f'{t[1]}.{m}' for m, _ in self.enums[t[1]].members]
            if t[0] == 'tuple':
                import itertools
                return ['(' + ', '.join(c) + ')' for c in itertools.product(*[inhabitants(x) for x in t[1]])]
            raise Untranslatable(f'{name}: key type {t}')
        keys = [r[0] for r in rows]
        if sorted(keys) != sorted(inhabitants(key_t)) or len(set(keys)) != len(keys):
            raise Untranslatable(f'{f}: dict {name} is not total / has duplicate keys over {ty_lean(key_t)} '
                                 f'(sentinels excluded): {keys}')
        self.emit(f'/-- dict literal `{name}` ({f}); total over its key type (shape-checked) -/')
        self.emit(f'def {lean} : {ty_lean(key_t)} → {ty_lean(val_t)}')
        for kc, vc in rows:
            self.emit(f'  | {kc} => {vc}')
        self.emit()
        self.dicts[name] = {'lean': lean, 'key': key_t, 'val': val_t}

    def scan_struct(self, f, name, kind):
        c = self.find_class(f, name)
        bases = [ast.unparse(b) for b in c.bases]
        decos = [ast.unparse(d) for d in c.decorator_list]
        if kind == 'namedtuple' and bases != ['NamedTuple']:
            raise Untranslatable(f'{f}: {name} is no longer a NamedTuple')
        if kind == 'dataclass' and not any(d.startswith('dataclasses.dataclass') for d in decos):
            raise Untranslatable(f'{f}: {name} is no longer a dataclass')
        fields = []
        fn = Translator.Fn(f, False, {})
        for n in c.body:
            if isinstance(n, ast.AnnAssign) and isinstance(n.target, ast.Name):
                t = self.ann(n.annotation, f)
                d = None
                if n.value is not None:
                    d = self.expr(n.value, fn, t)[0]
                fields.append((n.target.id, t, d))
            elif isinstance(n, ast.Expr) and isinstance(n.value, ast.Constant):
                pass
            elif isinstance(n, ast.FunctionDef) and kind == 'dataclass':
                pass     # is_empty/is_unique/is_duplicate delegate to `own`; not needed by the combinators
            else:
                raise Untranslatable(f'{_loc(n, f)}: unexpected statement in {name}')
        self.structs[name] = Struct(name, fields, f)
        self.emit(f'/-- `{name}` ({f}) -/')
        self.emit(f'structure {name} where')
        for fname, t, d in fields:
            self.emit(f'  {fname} : {ty_lean(t)}' + (f' := {d}' if d is not None else ''))
        self.emit('deriving DecidableEq, Repr')
        self.emit()

    # ------------------------------------------------------------------ run
    def run(self) -> str:
        self.emit('/-')
        self.emit('GENERATED by harness/gen/card.py — DO NOT EDIT.')
        self.emit('Python-AST → Lean translation of the cardinality / multiplicity algebra of')
        for f in (QLTYPES, CARD, ICTX, MULT):
            self.emit(f'  {f}')
        self.emit('Regenerated from the current tree by every `./check C06`; a construct outside the')
        self.emit('whitelisted subset aborts the translation (see the module docstring of the generator).')
        self.emit('Core Lean only.')
        self.emit('-/')
        self.emit('namespace EdbVerif.Gen.Card')
        self.emit()
        self.emit('/-- the exceptions the translated functions can raise -/')
        self.emit('inductive PyErr where')
        self.emit('  | AssertionError')
        self.emit('  | ValueError')
        self.emit('deriving DecidableEq, Repr')
        self.emit()
        self.emit('def PyErr.pyName : PyErr → String')
        self.emit('  | .AssertionError => "AssertionError"')
        self.emit('  | .ValueError => "ValueError"')
        self.emit()
        self.emit('/-- Python `max(seq)` on values compared through `key`: first maximal element; '
                  '`ValueError` on an empty sequence -/')
        self.emit('def pyMaxBy {α : Type} (key : α → Nat) : List α → Except PyErr α')
        self.emit('  | [] => .error .ValueError')
        self.emit('  | x :: xs => .ok (xs.foldl (fun m y => if key y > key m then y else m) x)')
        self.emit()
        self.emit('/-- Python `min(seq)`: first minimal element; `ValueError` on an empty sequence -/')
        self.emit('def pyMinBy {α : Type} (key : α → Nat) : List α → Except PyErr α')
        self.emit('  | [] => .error .ValueError')
        self.emit('  | x :: xs => .ok (xs.foldl (fun m y => if key y < key m then y else m) x)')
        self.emit()

        for name in ('TypeModifier', 'SchemaCardinality', 'Cardinality', 'Multiplicity'):
            self.scan_enum(QLTYPES, name)
        self.scan_enum(CARD, 'CardinalityBound')
        for f in (QLTYPES, CARD, MULT, ICTX):
            self.scan_aliases(f)
        for name in ('TypeModifier', 'SchemaCardinality', 'Cardinality', 'Multiplicity', 'CardinalityBound'):
            self.gen_enum(self.enums[name])

        # qltypes tables + Cardinality methods
        self.gen_dict(QLTYPES, '_CARD_TO_TUPLE', 'cardToTuple', ('enum', 'Cardinality'),
                      ('tuple', ('Bool', ('enum', 'SchemaCardinality'))))
        self.gen_dict(QLTYPES, '_TUPLE_TO_CARD', 'tupleToCard',
                      ('tuple', ('Bool', ('enum', 'SchemaCardinality'))), ('enum', 'Cardinality'))
        C = self.enums['Cardinality']
        for m in ('is_single', 'is_multi', 'can_be_zero', 'to_schema_value', 'from_schema_value'):
            fd, kind = C.methods[m]
            self.gen_func(QLTYPES, fd, f'Cardinality.{camel(m)}', 'Cardinality', kind)
        M = self.enums['Multiplicity']
        for m in ('is_empty', 'is_unique', 'is_duplicate'):
            fd, kind = M.methods[m]
            self.gen_func(QLTYPES, fd, f'Multiplicity.{camel(m)}', 'Multiplicity', kind)

        # CardinalityBound methods
        B = self.enums['CardinalityBound']
        for m in ('__add__', '__mul__', 'as_required', 'as_schema_cardinality', 'from_required',
                  'from_schema_value'):
            fd, kind = B.methods[m]
            self.gen_func(CARD, fd, f'CardinalityBound.{camel(m)}', 'CardinalityBound', kind)

        self.scan_struct(CARD, 'CardinalityBounds', 'namedtuple')
        for (f, name) in EXPECTED_FUNCS:
            if f == CARD:
                self.gen_func(CARD, self.find_func(CARD, name), camel(name))
        self.scan_struct(ICTX, 'MultiplicityInfo', 'dataclass')
        for (f, name) in EXPECTED_FUNCS:
            if f == MULT:
                self.gen_func(MULT, self.find_func(MULT, name), camel(name))

        self.emit('end EdbVerif.Gen.Card')
        return '\n'.join(self.out) + '\n'


def generate(repo: str) -> tuple[str, dict]:
    """returns (lean text, info) ; raises Untranslatable"""
    t = Translator(repo)
    text = t.run()
    h = hashlib.sha256()
    for f in (QLTYPES, CARD, MULT, ICTX):
        h.update(t.src[f].encode())
    info = {'source_sha256': h.hexdigest(),
            'functions': {k: {'py': v['py'], 'src': v['src'], 'partial': v['partial']}
                          for k, v in t.funcs.items()},
            'enums': {k: [m for m, _ in e.members] for k, e in t.enums.items()}}
    return text, info


def write(repo: str, lean_dir: str) -> dict:
    text, info = generate(repo)
    path = os.path.join(lean_dir, OUT_REL)
    os.makedirs(os.path.dirname(path), exist_ok=True)
    old = open(path).read() if os.path.exists(path) else None
    info['changed'] = old != text
    if old != text:
        with open(path, 'w') as f:
            f.write(text)
    info['path'] = path
    return info


if __name__ == '__main__':
    import sys
    repo = sys.argv[1] if len(sys.argv) > 1 else '/repo'
    print(generate(repo)[0])
