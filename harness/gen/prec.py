"""Translator: EdgeQL operator precedence table -> lean/EdbVerif/Gen/Prec.lean.

Source of truth: the REAL grammar classes (edb/edgeql/parser/grammar/{precedence,tokens,expressions}.py)
imported under the shim and introspected by bridge.grammar.extract():
  * numeric level + associativity of every precedence class (declaration chain `>x` / `=x`),
  * precedence of every operator TOKEN (what yacc compares when the token is the lookahead),
  * precedence of every operator PRODUCTION of `Expr` (explicit `[P_X]`, else its last terminal's),
    e.g. `Expr NOT IN Expr [P_IN]`, `MINUS Expr [P_UMINUS]`, `< T > Expr [P_TYPECAST]`.
Run on every check; the file is rewritten only when its content changes.
"""
from __future__ import annotations

import os
import re

from lib import core

OUT = os.path.join(core.LEAN_DIR, 'EdbVerif', 'Gen', 'Prec.lean')


def levels(precs):
    level, cur = {}, 0
    for name, (assoc, rels) in precs.items():
        if not rels:
            cur += 1
            level[name] = cur
        else:
            for rel, other in rels:
                if rel == '>':
                    level[name] = level[other] + 1
                elif rel == '=':
                    level[name] = level[other]
                elif rel == '<':
                    level[name] = level[other] - 1
            cur = max(cur, level[name])
    return level


def extract():
    from bridge import grammar
    G, _classes = grammar.extract()
    precs, toks, tm = G['precs'], G['toks'], G['token_map']
    lvl = levels(precs)
    assoc = {n: a for n, (a, _r) in precs.items()}

    def tok_level(t):
        p = toks.get(t)
        return (lvl[p], assoc[p], p) if p else None

    def prod_level(rhs, explicit):
        if explicit:
            return lvl[explicit], assoc[explicit], explicit
        for s in reversed(rhs):
            if s in toks and toks[s]:
                p = toks[s]
                return lvl[p], assoc[p], p
        return None

    expr = G['nonterms']['Expr']['prods']
    cmp_alts = [p[0][0] for p in G['nonterms']['CompareOp']['prods']]
    cmp_prec = [p for p in expr if p[0] == ['Expr', 'CompareOp', 'Expr']][0][1]
    binops = []        # (lean name, ast op, [token names], la level, rule level, assoc, rule prec name)
    prefix = {}        # token name -> (rule level, assoc, prec name)
    misc = {}
    for rhs, explicit, mn in expr:
        if len(rhs) >= 3 and rhs[0] == 'Expr' and rhs[-1] == 'Expr' and all(s in toks or s in tm for s in rhs[1:-1]) \
                and 'IF' not in rhs:
            ops = rhs[1:-1]
            if ops == ['CompareOp']:
                continue
            pl = prod_level(rhs, explicit)
            la = tok_level(ops[0])
            binops.append(('o_' + '_'.join(o.lower() for o in ops), ' '.join(tm[o] for o in ops).upper(), ops,
                           la[0], pl[0], pl[1], pl[2]))
        elif len(rhs) == 2 and rhs[1] == 'Expr' and rhs[0] in tm:
            pl = prod_level(rhs, explicit)
            prefix[rhs[0]] = pl
        elif rhs == ['LANGBRACKET', 'FullTypeExpr', 'RANGBRACKET', 'Expr']:
            misc['typecast'] = prod_level(rhs, explicit)
        elif rhs == ['Expr', 'IF', 'Expr', 'ELSE', 'Expr']:
            misc['ifelse'] = prod_level(rhs, explicit)
            misc['if_la'] = tok_level('IF')
        elif rhs == ['Expr', 'IS', 'TypeExpr']:
            misc['is'] = prod_level(rhs, explicit)
            misc['is_la'] = tok_level('IS')
        elif rhs == ['Expr', 'IS', 'NOT', 'TypeExpr']:
            misc['isnot'] = prod_level(rhs, explicit)
    for alt in cmp_alts:
        la = tok_level(alt)
        binops.append(('o_' + alt.lower(), tm[alt].upper(), [alt], la[0], lvl[cmp_prec], assoc[cmp_prec], cmp_prec))
    ite = G['nonterms']['IfThenElseExpr']['prods'][0]
    misc['ifthenelse'] = prod_level(ite[0], ite[1])
    misc['bracket_la'] = tok_level('LBRACKET')
    misc['dot_la'] = tok_level('DOT')
    misc['brace_la'] = tok_level('LBRACE')
    binops.sort(key=lambda b: (b[4], b[0]))
    return {'lvl': lvl, 'assoc': assoc, 'binops': binops, 'prefix': prefix, 'misc': misc, 'tm': tm,
            'toks': toks}


P_NAMES = {'dot', 'dotbw', 'lbracket', 'rbracket', 'lparen', 'rparen', 'lbrace', 'rbrace', 'doublecolon',
           'doublestar', 'doubleqmark', 'colon', 'semicolon', 'comma', 'plus', 'doubleplus', 'minus', 'star', 'slash',
           'doubleslash', 'percent', 'circumflex', 'at', 'assign', 'addassign', 'remassign', 'arrow', 'langbracket',
           'rangbracket', 'equals', 'amper', 'pipe', 'distinctfrom', 'greatereq', 'lesseq', 'notdistinctfrom', 'noteq'}
KW_NAMES = {'not', 'and', 'or', 'like', 'ilike', 'in', 'is', 'if', 'then', 'else', 'union', 'except', 'intersect',
            'exists', 'distinct', 'detached', 'true', 'false'}


def _tok(tm, name):
    """grammar terminal -> Lean `Tok` term of Model/QLLex.lean; a terminal the model has no constructor for
    means the real operator set changed: the model must be extended (reported as a broken obligation)."""
    text = tm[name]
    if re.fullmatch(r'[A-Za-z_]+', text) and text.upper() == name:
        if name.lower() not in KW_NAMES:
            raise ValueError(f'operator keyword {name} is unknown to Model/QLLex.lean')
        return f'.kw .{name.lower()}'
    if name.lower() not in P_NAMES:
        raise ValueError(f'operator token {name} ({text!r}) is unknown to Model/QLLex.lean')
    return f'.p .{name.lower()}'


def render(T) -> str:
    tm = T['tm']
    B = T['binops']
    L = []
    a = L.append
    a('/-')
    a('GENERATED by harness/gen/prec.py from edb/edgeql/parser/grammar/{precedence,tokens,expressions}.py')
    a('(imported under the shim; regenerated on every check run).  Do not edit.')
    a('')
    a('Levels: position of the precedence class in the declaration chain (1 = loosest).')
    a('`laLvl`  = precedence of the operator\'s FIRST token (what yacc compares when it is the lookahead),')
    a('`ruleLvl`= precedence of the production (explicit `[P_X]`, else that of its last terminal).')
    a('-/')
    a('import EdbVerif.Model.QLLex')
    a('')
    a('namespace EdbVerif.Gen.Prec')
    a('open EdbVerif.QLLex')
    a('')
    a('inductive Assoc | left | right | nonassoc')
    a('  deriving DecidableEq, Repr')
    a('')
    a('/-- precedence classes: (name, level, associativity) in declaration order -/')
    a('def classes : List (String × Nat × Assoc) := [')
    items = [f'  ("{n}", {l}, .{T["assoc"][n]})' for n, l in T['lvl'].items()]
    a(',\n'.join(items) + ']')
    a('')
    a('/-- binary operators of `Expr` (one constructor per production / CompareOp alternative) -/')
    a('inductive BOp')
    for b in B:
        a(f'  | {b[0]}')
    a('  deriving DecidableEq, Repr')
    a('')
    a('def BOp.all : List BOp := [' + ', '.join('.' + b[0] for b in B) + ']')
    a('')
    a('def BOp.name : BOp → String')
    for b in B:
        a(f'  | .{b[0]} => "{b[0]}"')
    a('')
    a('def BOp.ofName (s : String) : Option BOp := BOp.all.find? (·.name == s)')
    a('')
    a('/-- the `op` string stored in `qlast.BinOp` -/')
    a('def BOp.ast : BOp → String')
    for b in B:
        a(f'  | .{b[0]} => "{b[1]}"')
    a('')
    a('def BOp.toks : BOp → List Tok')
    for b in B:
        a(f'  | .{b[0]} => [' + ', '.join(_tok(tm, t) for t in b[2]) + ']')
    a('')
    a('def BOp.laLvl : BOp → Nat')
    for b in B:
        a(f'  | .{b[0]} => {b[3]}')
    a('')
    a('def BOp.ruleLvl : BOp → Nat')
    for b in B:
        a(f'  | .{b[0]} => {b[4]}    -- {b[6]}')
    a('')
    a('def BOp.assoc : BOp → Assoc')
    for b in B:
        a(f'  | .{b[0]} => .{b[5]}')
    a('')
    a('/-- recognise a binary operator at the head of the token list (two-token operators first) -/')
    a('def matchBin : List Tok → Option (BOp × List Tok)')
    for b in sorted(B, key=lambda b: -len(b[2])):
        pat = ' :: '.join(_tok(tm, t) for t in b[2]) + ' :: r'
        a(f'  | {pat} => some (.{b[0]}, r)')
    a('  | _ => none')
    a('')
    P, M = T['prefix'], T['misc']
    def const(name, v, doc):
        a(f'/-- {doc} -/')
        a(f'def {name} : Nat := {v[0]}    -- {v[2]} ({v[1]})')
    const('uminusLvl', P['MINUS'], '`MINUS Expr`')
    const('uplusLvl', P['PLUS'], '`PLUS Expr`')
    const('notLvl', P['NOT'], '`NOT Expr`')
    const('existsLvl', P['EXISTS'], '`EXISTS Expr`')
    const('distinctLvl', P['DISTINCT'], '`DISTINCT Expr`')
    const('detachedLvl', P['DETACHED'], '`DETACHED Expr`')
    const('typecastLvl', M['typecast'], '`< FullTypeExpr > Expr`')
    const('ifRuleLvl', M['ifelse'], '`Expr IF Expr ELSE Expr` (rule)')
    const('ifLaLvl', M['if_la'], 'token IF as lookahead')
    const('ifThenRuleLvl', M['ifthenelse'], '`IF Expr THEN Expr ELSE Expr` (rule)')
    const('isRuleLvl', M['is'], '`Expr IS TypeExpr` (rule)')
    const('isNotRuleLvl', M['isnot'], '`Expr IS NOT TypeExpr` (rule)')
    const('isLaLvl', M['is_la'], 'token IS as lookahead')
    const('bracketLvl', M['bracket_la'], 'token `[` as lookahead (indirection)')
    const('dotLvl', M['dot_la'], 'token `.` as lookahead (path step)')
    const('braceLvl', M['brace_la'], 'token `{` as lookahead (shape)')
    a('')
    a('/-- associativity of the prefix productions (all `right` in the real grammar): a prefix operator')
    a('    of level p keeps absorbing lookahead operators of level ≥ p -/')
    for nm, key in (('uminusAssoc', 'MINUS'), ('notAssoc', 'NOT'), ('existsAssoc', 'EXISTS'),
                    ('distinctAssoc', 'DISTINCT'), ('detachedAssoc', 'DETACHED')):
        a(f'def {nm} : Assoc := .{P[key][1]}')
    a(f'def typecastAssoc : Assoc := .{M["typecast"][1]}')
    a(f'def ifAssoc : Assoc := .{M["ifelse"][1]}')
    a(f'def isAssoc : Assoc := .{M["is"][1]}')
    a('')
    a('end EdbVerif.Gen.Prec')
    return '\n'.join(L) + '\n'


def generate(write=True):
    """returns (changed, table)"""
    T = extract()
    src = render(T)
    old = open(OUT).read() if os.path.exists(OUT) else None
    if old != src and write:
        os.makedirs(os.path.dirname(OUT), exist_ok=True)
        with open(OUT, 'w') as f:
            f.write(src)
    return old != src, T


if __name__ == '__main__':
    import shim  # noqa
    changed, T = generate()
    print('changed' if changed else 'unchanged', OUT)
