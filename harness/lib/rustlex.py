"""The real EdgeQL tokenizer (tokenizer.rs + validation.rs from /repo), rebuilt
with rustc on every check run and driven through a hex line protocol."""
from __future__ import annotations

import os
import subprocess
from typing import Iterable, NamedTuple, Optional

from . import core

RUST_DIR = os.path.join(core.VERIF, 'harness', 'rust')
BIN = os.path.join(core.VERIF, 'harness', 'rust', 'build', 'edb_lex' if core.REPO == '/repo' else 'edb_lex-' + __import__('hashlib').md5(core.REPO.encode()).hexdigest()[:10])


class Tok(NamedTuple):
    kind: str            # Debug form of tokenizer::Kind, e.g. 'Str', 'Keyword(Keyword("select"))'
    text: str
    vkind: str           # none|str|int|float|bytes|bigint|decimal
    value: bytes         # raw value bytes (utf-8 for str)
    start: int
    end: int


class LexResult(NamedTuple):
    toks: list           # tokens before the error (EOI included when ok)
    error: Optional[str]


def build() -> tuple[bool, str]:
    """(re)compile the lexer binary from the current /repo tree."""
    env = dict(os.environ, EDB_VERIF_REPO=core.REPO)
    r = subprocess.run([os.path.join(RUST_DIR, 'build.sh')], capture_output=True, text=True, env=env)
    return r.returncode == 0, r.stdout + r.stderr


def lex_many(texts: Iterable[str]) -> list[LexResult]:
    data = '\n'.join(t.encode('utf-8', 'surrogatepass').hex() for t in texts) + '\n'
    r = subprocess.run([BIN], input=data, capture_output=True, text=True)
    if r.returncode != 0:
        raise core.Infra('edb_lex failed: ' + r.stderr[-500:])
    out = []
    for line in r.stdout.split('\n')[:-1]:
        if line in ('BADHEX', 'BADUTF8'):
            out.append(LexResult([], line))
            continue
        toks, err = [], None
        for part in line.split(';'):
            if part.startswith('ERR,'):
                err = bytes.fromhex(part.split(',')[1]).decode()
                break
            # Kind may contain commas inside Keyword("..")? no: Keyword(Keyword("x")) has none
            f = part.rsplit(',', 5)
            toks.append(Tok(f[0], bytes.fromhex(f[1]).decode(), f[2], bytes.fromhex(f[3]), int(f[4]), int(f[5])))
        out.append(LexResult(toks, err))
    return out
