"""C17 "churn" stream: let superseded state objects DIE.

Every other stream of this package keeps all generated state objects alive (token tables,
histories kept for replay), so the address of a map is never reused.  The real server frees
superseded reflection caches / database configs / system configs, and anything on the real
code that identifies such an object by its address rather than by a reference to it (e.g. a
memo of pickles keyed by ``id(obj)``) hands a new object the bytes of a dead one.

Here: a real pool (``FixedPool`` via lib.c17rig.Rig, or the in-process ``MultiTenantPool`` via
lib.c17rig_mt.RigLocalMT) is driven with freshly allocated single-entry ``immutables.Map``s whose
only content is a unique tag.  After each request the harness keeps nothing but the tags of
superseded maps and the *integers* ``id()`` of the maps it has transmitted; it calls
``gc.collect()`` and allocates a burst of same-shaped maps, preferring one that landed on the
address of an earlier transmitted map.  The oracle is by VALUE: the content tags the recorder
received must be the tags supplied, and what each worker holds must carry the tags the pool
believes it holds.  ``address_reuse_events`` counts requests whose supplied map sat on the
address of an earlier transmitted map.

Replay: the stream is a function of (seed, parameters); a replay re-runs the same allocation
pattern (address reuse is then likely, not certain; the oracle does not depend on it).
"""
from __future__ import annotations

import gc
import pickle
import random

KINDS = ('refl', 'dbcfg', 'sys')
_RUN = [0]
_SEEN: dict = {}      # id (int) -> tag of a transmitted map, across the runs of one process (integers only)


def _mk(tag):
    import immutables
    return immutables.Map({'id': tag})


async def run(loop, params, c17):
    """params: {'variant': 'fixed'|'multitenant', 'nworkers', 'steps', 'seed', 'burst'}"""
    R = c17.rig_mod()
    rng = random.Random(params['seed'])
    nw = params['nworkers']
    variant = params['variant']
    schema_b = pickle.dumps(R.Payload('churn-S'))
    glob_b = pickle.dumps(R.Payload('churn-G'))
    n_tag = [0]
    _RUN[0] += 1
    run_no = _RUN[0]

    def fresh_tag(kind):
        n_tag[0] += 1
        return f'{kind}{n_tag[0]}' if run_no == 1 else f'{kind}{n_tag[0]}.{run_no}'

    # the ONLY strong references the harness holds to state maps: the current ones
    cur = {k: _mk(fresh_tag(k)) for k in KINDS}
    if variant == 'fixed':
        rig = R.Rig(loop, 'fixed', nw, {'db0': (schema_b, cur['refl'], cur['dbcfg'])}, glob_b, cur['sys'])
        await rig.attach()
        pool, workers, wmods = rig.pool, rig.workers, rig.wmods

        async def compile_(plan):
            return await pool.compile('db0', schema_b, glob_b, cur['refl'], cur['dbcfg'], cur['sys'], plan)

        def actual(wm):
            d = wm.DBS.get('db0')
            return None if d is None else (R.cid_of(d.reflection_cache), R.cid_of(d.database_config),
                                           R.cid_of(wm.INSTANCE_CONFIG))

        def belief(w):
            d = w._dbs.get('db0')
            return None if d is None else (R.cid_of(d.reflection_cache), R.cid_of(d.database_config),
                                           R.cid_of(w._system_config))
    else:
        from lib import c17rig_mt
        rig = c17rig_mt.RigLocalMT(loop, nw, 2)
        await rig.start()
        pool, workers, wmods = rig.pool, rig.workers, rig.wmods

        async def compile_(plan):
            return await pool.compile('db0', schema_b, glob_b, cur['refl'], cur['dbcfg'], cur['sys'], plan,
                                      client_id=1)

        def actual(wm):
            c = wm.clients.get(1)
            d = None if c is None else c.dbs.get('db0')
            return None if d is None else (R.cid_of(d.reflection_cache), R.cid_of(d.database_config),
                                           R.cid_of(c.instance_config))

        def belief(w):
            ts = w.get_tenant_schema(1)
            d = None if ts is None else ts.dbs.get('db0')
            return None if d is None else (R.cid_of(d.reflection_cache), R.cid_of(d.database_config),
                                           R.cid_of(ts.system_config))

    seen_ids = _SEEN       # id (int) -> tag of the transmitted map that had it  (integers only!)
    for k in KINDS:
        seen_ids[id(cur[k])] = cur[k]['id']
    stats = {'steps': 0, 'address_reuse_events': 0, 'reuse_by_kind': {k: 0 for k in KINDS}}
    fails = []
    trail = []             # (kind, tag, reused_tag or None, worker) — tags only
    for step in range(params['steps']):
        kind = KINDS[step % 3] if rng.random() < 0.8 else rng.choice(KINDS)
        # let the dead die, then allocate a burst of same-shaped maps and prefer one that sits
        # on the address of a map transmitted earlier
        gc.collect()
        tag = fresh_tag(kind)
        burst = [_mk(tag) for _ in range(params['burst'])]
        chosen = next((m for m in burst if id(m) in seen_ids), burst[0])
        reused = seen_ids.get(id(chosen))
        del burst
        cur[kind] = chosen           # the superseded map loses its last harness reference here
        del chosen
        if reused is not None:
            stats['address_reuse_events'] += 1
            stats['reuse_by_kind'][kind] += 1
        seen_ids[id(cur[kind])] = tag
        # which worker: rotate by putting the served worker at the back now and then
        nlog = [len(x) for x in rig.rec_logs]
        res = 'ok'
        try:
            await compile_(('ok', 0))
        except Exception as e:   # noqa: BLE001
            res = c17.classify_exc(e, rig.state_mod, R)
        w = next((j for j in range(nw) if len(rig.rec_logs[j]) > nlog[j]), None)
        if nw > 1 and rng.random() < 0.4:
            # make another worker serve next time (real queue: take the front one out and
            # give it back at the end)
            x = await pool._acquire_worker()
            pool._release_worker(x, put_in_front=False)
        if hasattr(rig, 'wire'):
            rig.wire.clear()
        if hasattr(rig, 'wire3'):
            rig.wire3.clear()
        stats['steps'] += 1
        trail.append((kind, tag, reused, w))
        supplied = (cur['refl']['id'], cur['dbcfg']['id'], cur['sys']['id'])
        used = None
        if w is not None:
            e = rig.rec_logs[w][nlog[w]]
            used = (e[3], e[4], e[5])       # ('C', us, gs, rc, dc, sc)
        detail = {'step': step, 'kind': kind, 'supplied': supplied, 'used': used, 'res': res,
                  'reused_address_of': reused, 'trail': trail[-6:]}
        if res != 'ok' or used is None:
            fails.append(('churn-request-failed', 'a plain request failed in the churn stream', detail))
            break
        if used != supplied:
            fails.append(('churn-wrong-value-used',
                          'the worker compiled with a part whose VALUE is not the supplied one '
                          '(no error raised)', detail))
            break
        bad = None
        for j, (wk, wm) in enumerate(zip(workers, wmods)):
            b, a = belief(wk), actual(wm)
            if b is not None and b != a:
                bad = (j, b, a)
        if bad is not None:
            fails.append(('churn-belief-value-mismatch',
                          'the pool believes a worker holds a part whose VALUE the worker does not hold',
                          dict(detail, worker=bad[0], belief=bad[1], actual=bad[2])))
            break
    rig.close() if hasattr(rig, 'close') else None
    return stats, fails
