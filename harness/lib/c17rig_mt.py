"""In-process rig for the REMOTE (three-tier) compiler path of C17.

    EdgeDB server            compiler server                 worker processes
    pool.RemotePool   --->   server.MultiSchemaPool   --->   multitenant_worker (x n)
    (one per client)         (one)

What is real (imported from /repo, unmodified):
  * tier 1, per client: ``pool.RemotePool`` (``compile``, its
    ``_compute_compile_preargs`` override with the sync lock, ``_acquire_worker`` /
    ``_release_worker``, ``_make_init_args``, ``_connection_made``), ``pool.RemoteWorker``
    (``_request`` with the HMAC), ``BaseWorker.call``, ``sync_worker_state_cb``,
    ``amsg.HubConnection``;
  * tier 2: ``server.MultiSchemaPool`` (``handle_client_call`` with the HMAC check,
    ``_init_server``, ``_call_for_client``, ``_sync``, ``_weighter``, ``_attach_worker``,
    ``_acquire_worker`` / ``_release_worker`` and the ``WorkerQueue``), ``server.ClientSchema.diff``,
    ``server.PickledState.diff``, ``server.Worker`` (LRU cache, ``invalidate_last``,
    ``flush_invalidation``, ``set_client_schema``, ``call``);
  * tier 3: one fresh instance of ``multitenant_worker.py`` per worker (``__init_worker__``,
    ``get_handler``, ``call_for_client``, ``__sync__``, ``compile``) driven by the real
    ``worker_proc.worker`` loop (one pass per request, as in lib/c17rig.py).

Replaced: the sockets between the tiers (in-process hand-off) and
``compiler.new_compiler`` (→ lib.c17rig.Recorder).
"""
from __future__ import annotations

import asyncio
import os
import pickle
import types

import shim  # noqa: F401
import immutables

from lib import c17rig
from lib.c17rig import Recorder, _fresh_module, _FakeWorkerConnection, _worker_proc

SECRET = 'c17-rig-secret'


class _WorkerConn:
    """tier 2 -> tier 3: what ``server.Worker._con`` needs"""

    def __init__(self, rig, idx):
        self.rig, self.idx, self.n = rig, idx, 0
        self.key = (id(rig), 'mt', idx)

    def is_closed(self):
        return False

    async def request(self, msg):
        self.n += 1
        self.rig.wire3.append((self.idx, msg))
        _FakeWorkerConnection.pending[self.key] = (self.n, msg)
        _worker_proc().worker(self.key, 0, self.rig.wmods[self.idx].get_handler)
        rid, data = _FakeWorkerConnection.replies.pop(self.key)
        assert rid == self.n
        return bytes(data)


class _FakeServer:
    def __init__(self, rig):
        self.rig = rig

    def get_by_pid(self, pid):
        return self.rig.wconns[pid - 2000]

    def kill_outdated_worker(self, version):
        pass


class _ClientProto:
    """tier 1 -> tier 2.  Towards tier 1 it is the ``protocol`` of an
    ``amsg.HubConnection`` (``send``); towards tier 2 it is the
    ``CompilerServerProtocol`` of that client (``client_id``, ``reply``)."""

    def __init__(self, rig, client_id):
        self.rig = rig
        self.client_id = client_id
        self._closed = False
        self._waiters = {}
        self.hold_next = 0       # hold back the replies of the next n requests (scenario tests)
        self.held = []

    # HubProtocol side
    def send(self, req_id, waiter, payload):
        self._waiters[req_id] = waiter
        self.rig.wire2.append((self.client_id, bytes(payload)))
        self.rig.loop.create_task(
            self.rig.mpool.handle_client_call(self, req_id, memoryview(bytes(payload))))

    # CompilerServerProtocol side
    def reply(self, req_id, resp):
        w = self._waiters.pop(req_id)
        if self.hold_next > 0:
            self.hold_next -= 1
            self.held.append((w, bytes(resp)))
            return
        if not w.done():
            w.set_result(memoryview(bytes(resp)))

    def release_held(self):
        for w, resp in self.held:
            if not w.done():
                w.set_result(memoryview(resp))
        self.held = []


class _Transport:
    def abort(self):
        pass


class _DbIndex:
    def __init__(self, args):
        self.args = args

    def get_cached_compiler_args(self):
        return self.args


class RigMT:
    def __init__(self, loop, nworkers: int, cache_size: int, clients: dict):
        """clients: {client_id: (init_dbs {dbname: (s, r, c)}, glob, sys)}"""
        c17rig._install_graphql_stub()
        os.environ['_EDGEDB_SERVER_COMPILER_POOL_SECRET'] = SECRET
        from edb.server.compiler_pool import pool as pool_mod, queue as queue_mod, \
            state as state_mod, server as server_mod
        from edb.server import defines
        self.loop = loop
        self.pool_mod, self.state_mod, self.server_mod, self.defines = \
            pool_mod, state_mod, server_mod, defines
        self.n = nworkers
        self.client_specs = clients
        self.wire2: list = []       # (client, raw tier-1 request)
        self.wire3: list = []       # (worker idx, raw tier-2 request)
        self.cb_log: list = []
        self.rec_logs = [[] for _ in range(nworkers)]
        rig = self

        class MPool(server_mod.MultiSchemaPool):
            pass

        self.mpool = MPool(cache_size, secret=SECRET.encode(), loop=loop,
                           runstate_dir='/tmp/c17-rig-mt', pool_size=nworkers)
        self.mpool._server = _FakeServer(self)
        self.mpool._running = True
        self.mpool._workers_queue = queue_mod.WorkerQueue(loop)

        self.wmods, self.wconns = [], []
        for i in range(nworkers):
            wm = _fresh_module('multitenant_worker.py', f'_c17_mtworker{i}')
            log = self.rec_logs[i]
            wm.compiler = types.SimpleNamespace(
                new_compiler=lambda *a, _log=log, **k: Recorder(_log))
            self.wmods.append(wm)
            self.wconns.append(_WorkerConn(self, i))
        self.workers = []
        self.protos = {}
        self.pools = {}      # client id -> RemotePool
        self.rworkers = {}   # client id -> RemoteWorker

        class RPool(pool_mod.RemotePool):  # only observes
            async def _compute_compile_preargs(self, *a):
                r = await super()._compute_compile_preargs(*a)
                rig.cb_log.append(r[1] is not None)
                return r
        self._RPool = RPool

    async def start(self):
        pm, sm = self.pool_mod, self.state_mod
        first = True
        for cid, (init_dbs, glob, sys_) in self.client_specs.items():
            dbs = immutables.Map({
                name: sm.PickledDatabaseState(user_schema_pickle=s, reflection_cache=r,
                                              database_config=c)
                for name, (s, r, c) in init_dbs.items()})
            p = self._RPool(loop=self.loop, address=('none', 0), pool_size=4,
                            backend_runtime_params=None, std_schema='std', refl_schema='refl',
                            schema_class_layout='layout', dbindex=_DbIndex((dbs, glob, sys_)))
            p._worker = self.loop.create_future()
            proto = _ClientProto(self, cid)
            self.protos[cid] = proto
            # real: RemoteWorker(HubConnection(...)), call('__init_server__', ...) -> _init_server
            await p._connection_made(False, proto, _Transport(), 0, 0)
            assert p._worker.done() and p._worker.exception() is None, p._worker
            self.pools[cid] = p
            self.rworkers[cid] = p._worker.result()
            if first:
                first = False
                for i in range(self.n):
                    w = await self.mpool._attach_worker(2000 + i)   # real: Worker(), __init_worker__
                    self.workers.append(w)
        assert self.mpool._ready_evt.is_set()
        self.wire2.clear()
        self.wire3.clear()

    def close(self):
        pass

    async def isolate(self, idx):
        target = self.workers[idx]
        held = []
        while self.mpool._workers_queue.qsize() > 1:
            held.append(await self.mpool._acquire_worker(condition=lambda x: x is not target))
        return held

    def give_back(self, held, fronts):
        for w, f in zip(held, fronts):
            self.mpool._release_worker(w, put_in_front=f)


class RigLocalMT:
    """The in-process multi-tenant variant: a REAL ``pool.MultiTenantPool`` (its
    ``_compute_compile_preargs`` + callback, ``_acquire_worker`` with the weighter,
    ``MultiTenantWorker`` LRU cache / invalidation) over real ``multitenant_worker`` instances."""

    def __init__(self, loop, nworkers: int, cache_size: int):
        c17rig._install_graphql_stub()
        from edb.server.compiler_pool import pool as pool_mod, queue as queue_mod, state as state_mod
        self.loop, self.n = loop, nworkers
        self.pool_mod, self.state_mod = pool_mod, state_mod
        self.wire3: list = []
        self.rec_logs = [[] for _ in range(nworkers)]
        self.pool = pool_mod.MultiTenantPool(
            loop=loop, runstate_dir='/tmp/c17-rig-lmt', pool_size=nworkers, cache_size=cache_size,
            backend_runtime_params=None, std_schema='std', refl_schema='refl',
            schema_class_layout='layout')
        self.pool._server = _FakeServer(self)
        self.pool._running = True
        self.pool._workers_queue = queue_mod.WorkerQueue(loop)
        self.wmods, self.wconns = [], []
        for i in range(nworkers):
            wm = _fresh_module('multitenant_worker.py', f'_c17_lmtworker{i}')
            log = self.rec_logs[i]
            wm.compiler = types.SimpleNamespace(
                new_compiler=lambda *a, _log=log, **k: Recorder(_log))
            self.wmods.append(wm)
            self.wconns.append(_WorkerConn(self, i))
        self.workers = []

    async def start(self):
        for i in range(self.n):
            self.workers.append(await self.pool._attach_worker(2000 + i))
        self.wire3.clear()

    async def isolate(self, idx):
        target = self.workers[idx]
        held = []
        while self.pool._workers_queue.qsize() > 1:
            held.append(await self.pool._acquire_worker(condition=lambda x: x is not target))
        return held

    def give_back(self, held, fronts):
        for w, f in zip(held, fronts):
            self.pool._release_worker(w, put_in_front=f)
