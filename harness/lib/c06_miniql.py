"""MiniQL terms for C06: protocol lines for the Lean driver, REAL IR trees
(edb.ir.ast) for the real cardinality / multiplicity inference, qlast trees for
the real toy evaluator, random schemas / databases / terms.

A term is a nested tuple:
  ('lit', n) ('empty',) ('cset', (n..)) ('var', i) ('root', t) ('path', src, p)
  ('tuple', (e..)) ('union', a, b) ('distinct', a) ('coalesce', a, b)
  ('if', a, c, b) ('call', f, (args..)) ('filter', a, w) ('limit', a, k)
  ('limitc', a, n) ('offset', a, k) ('for', it, body)

Schema: {'ptrs': [ {src, required, multi, link(None|t), exclusive} ], 'fns': [ {params:'SA..', ret:'S',
          isOp, kind:'e|a|p|o', impl:name, name:real shortname} ], 'ntypes': k}
"""
from __future__ import annotations

import uuid as _uuid

# ------------------------------------------------------------------ functions
# impl name -> (params, ret, isOp, kind, real shortname, toy (kind, op))
STD_FNS = [
    dict(impl='count', params='A', ret='S', isOp=0, kind='o', name='std::count', toy=('func', 'count')),
    dict(impl='exists', params='A', ret='S', isOp=1, kind='o', name='std::EXISTS', toy=('unop', 'EXISTS')),
    dict(impl='plus', params='SS', ret='S', isOp=1, kind='p', name='std::+', toy=('binop', '+')),
    dict(impl='mul', params='SS', ret='S', isOp=1, kind='o', name='std::*', toy=('binop', '*')),
    dict(impl='eq', params='SS', ret='S', isOp=1, kind='e', name='std::=', toy=('binop', '=')),
    dict(impl='ne', params='SS', ret='S', isOp=1, kind='o', name='std::!=', toy=('binop', '!=')),
    dict(impl='lt', params='SS', ret='S', isOp=1, kind='o', name='std::<', toy=('binop', '<')),
    dict(impl='opteq', params='OO', ret='S', isOp=1, kind='o', name='std::?=', toy=('binop', '?=')),
    dict(impl='in', params='SA', ret='S', isOp=1, kind='o', name='std::IN', toy=('binop', 'IN')),
    dict(impl='not', params='S', ret='S', isOp=1, kind='o', name='std::NOT', toy=('unop', 'NOT')),
    dict(impl='and', params='SS', ret='S', isOp=1, kind='a', name='std::AND', toy=('binop', 'AND')),
    dict(impl='or', params='SS', ret='S', isOp=1, kind='o', name='std::OR', toy=('binop', 'OR')),
    dict(impl='sum', params='A', ret='S', isOp=0, kind='o', name='std::sum', toy=('func', 'sum')),
    # an OPTIONAL-returning aggregate without `preserves_optionality` (the real std::min has that flag, which the
    # calculus does not model): given a name of its own in the hand-built IR
    dict(impl='min', params='A', ret='O', isOp=0, kind='o', name='test::optmin', toy=('func', 'min')),
    dict(impl='any', params='A', ret='S', isOp=0, kind='o', name='std::any', toy=('func', 'any')),
]
FN_IX = {f['impl']: i for i, f in enumerate(STD_FNS)}


# ---------------------------------------------------------------- line format
def term_line(t) -> str:
    k = t[0]
    if k == 'lit':
        return f'L {t[1]}'
    if k == 'empty':
        return 'E'
    if k == 'cset':
        return f'C {len(t[1])} ' + ' '.join(f'p{e[1]}' if isinstance(e, tuple) else str(e) for e in t[1])
    if k == 'param':
        return f'M {t[1]}'
    if k == 'var':
        return f'V {t[1]}'
    if k == 'root':
        return f'R {t[1]}'
    if k == 'path':
        return f'P {t[2]} {term_line(t[1])}'
    if k == 'tuple':
        return f'T {len(t[1])}' + ''.join(' ' + term_line(e) for e in t[1])
    if k == 'union':
        return f'U {term_line(t[1])} {term_line(t[2])}'
    if k == 'distinct':
        return f'D {term_line(t[1])}'
    if k == 'coalesce':
        return f'Q {term_line(t[1])} {term_line(t[2])}'
    if k == 'if':
        return f'I {term_line(t[1])} {term_line(t[2])} {term_line(t[3])}'
    if k == 'call':
        return f'F {t[1]} {len(t[2])}' + ''.join(' ' + term_line(e) for e in t[2])
    if k == 'filter':
        return f'W {term_line(t[1])} {term_line(t[2])}'
    if k == 'limit':
        return f'K {term_line(t[1])} {term_line(t[2])}'
    if k == 'limitc':
        return f'KC {t[2]} {term_line(t[1])}'
    if k == 'offset':
        return f'O {term_line(t[1])} {term_line(t[2])}'
    if k == 'for':
        return f'X {term_line(t[1])} {term_line(t[2])}'
    raise ValueError(k)


def peel_stmt(t):
    """`limit(offset(filter(a, w), o), l)` is ONE statement `SELECT a FILTER w OFFSET o LIMIT l`:
    -> (a, filter-term|None, offset-term|None, limit-term|None); clauses are peeled in that order only"""
    lim = off = flt = None
    if t[0] in ('limit', 'limitc'):
        lim, t = t, t[1]
    if t[0] == 'offset':
        off, t = t, t[1]
    if t[0] == 'filter':
        flt, t = t, t[1]
    return t, flt, off, lim


def schema_line(sch) -> str:
    ps = ';'.join(f"{p['src']},{int(p['required'])},{int(p['multi'])},"
                  f"{-1 if p['link'] is None else p['link']},{int(p['exclusive'])}" for p in sch['ptrs']) or '-'
    fs = ';'.join(f"{f['params'] or '-'},{f['ret']},{int(f['isOp'])},{f['kind']},{f['impl']}"
                  for f in sch['fns']) or '-'
    ds = ','.join(f"{t}:{'.'.join(map(str, d))}" for t, d in sorted(sch.get('descs', {}).items()) if d) or '-'
    pr = ''.join('1' if r else '0' for r in sch.get('params', [])) or '-'
    return f'{ps}|{fs}|{ds}|{pr}'


def descs_of(children, ntypes):
    """transitive strict descendants per type, ascending, from the direct-children relation"""
    out = {}
    for t in range(ntypes):
        seen, todo = set(), list(children.get(t, []))
        while todo:
            x = todo.pop()
            if x not in seen:
                seen.add(x)
                todo += children.get(x, [])
        out[t] = sorted(seen)
    return out


def lineage(sch, t):
    return [t] + list(sch.get('descs', {}).get(t, []))


def db_line(db) -> str:
    os_ = ','.join(f'{i}:{t}' for i, t in db['objs']) or '-'

    def v(x):
        return f'o{x[1]}' if isinstance(x, tuple) else f'i{x}'
    ds = ';'.join(f'{p}:{i}=' + ' '.join(v(x) for x in vals) for (p, i), vals in db['ptrs'].items()) or '-'
    pv = ','.join('n' if x is None else str(x) for x in db.get('params', [])) or '-'
    return f'{os_}|{ds}|{pv}'


def term_size(t) -> int:
    n = 1
    for x in t[1:]:
        if isinstance(x, tuple) and x and isinstance(x[0], str):
            n += term_size(x)
        elif isinstance(x, tuple):
            for y in x:
                if isinstance(y, tuple) and y and isinstance(y[0], str):
                    n += term_size(y)
    return n


def term_heads(t, acc):
    acc[t[0]] = acc.get(t[0], 0) + 1
    for x in t[1:]:
        if isinstance(x, tuple) and x and isinstance(x[0], str):
            term_heads(x, acc)
        elif isinstance(x, tuple):
            for y in x:
                if isinstance(y, tuple) and y and isinstance(y[0], str):
                    term_heads(y, acc)
    return acc


# ------------------------------------------------------------------ real IR
_STUB: dict = {}


def _stub_classes():
    """Subclasses of the real schema classes answering the few methods the
    inference calls on them (defined once: schema classes register by name)."""
    if 'cls' in _STUB:
        return _STUB['cls']
    from edb.schema import objtypes as s_objtypes, properties as s_props, links as s_links
    from edb.schema import constraints as s_constr
    _STUB['ptr_info'] = {}
    _STUB['id_ptr'] = {}
    _STUB['descs'] = {}
    _STUB['children'] = {}
    _STUB['excl'] = s_constr.Constraint._create_from_id(_uuid.uuid4())

    class StubObjType(s_objtypes.ObjectType):
        def get_nearest_non_derived_parent(self, schema):
            return self

        def get_constraints(self, schema):
            class _C:
                def objects(self, schema):
                    return []
            return _C()

        def getptr(self, schema, name):
            return _STUB['id_ptr'][self]

        def descendants(self, schema):
            return _STUB['descs'].get(self, [])

        def children(self, schema):
            return _STUB['children'].get(self, [])

    class _PtrMixin:
        def get_nearest_non_derived_parent(self, schema):
            return self

        def get_exclusive_constraints(self, schema):
            return [_STUB['excl']] if _STUB['ptr_info'][self]['exclusive'] else []

        def is_exclusive(self, schema):
            return _STUB['ptr_info'][self]['exclusive']

    class StubProp(_PtrMixin, s_props.Property):
        pass

    class StubLink(_PtrMixin, s_links.Link):
        pass

    _STUB['cls'] = (StubObjType, StubProp, StubLink)
    return _STUB['cls']


class RealIR:
    """Builds real ``edb.ir.ast`` trees for MiniQL terms and runs the real
    inference on them.  The schema objects the inference consults are stubs
    (subclasses of the real schema classes answering the handful of methods the
    inference calls); the scope tree is a real ``ScopeTreeNode`` tree."""

    def __init__(self, sch, merge=True):
        # merge: a chain limit(offset(filter(a))) is built as ONE SelectStmt (what the front-end does for
        # `SELECT a FILTER .. OFFSET .. LIMIT ..`); otherwise one SelectStmt per clause (nested selects)
        self.merge = merge
        import shim  # noqa: F401
        from edb.ir import ast as irast, pathid
        from edb.schema import name as sn, pointers as s_pointers, objtypes as s_objtypes
        from edb.schema import properties as s_props, links as s_links, constraints as s_constr
        from edb.edgeql import qltypes
        from edb.edgeql.compiler.inference import context as inf_context
        self.irast, self.pathid, self.sn, self.qlt = irast, pathid, sn, qltypes
        self.s_pointers = s_pointers
        self.sch = sch
        self.n = 0
        self.tr_int = irast.TypeRef(id=_uuid.uuid4(), name_hint=sn.QualName('std', 'int64'), is_scalar=True)
        self.tr_obj = {}
        StubObjType, StubProp, StubLink = _stub_classes()
        self.excl_constraint = _STUB['excl']
        self.ptr_info = _STUB['ptr_info']
        self.stype = {}
        self.id_ptr = _STUB['id_ptr']
        outer = self
        self._StubObjType, self._StubProp = StubObjType, StubProp
        for t in range(sch['ntypes']):
            st = StubObjType._create_from_id(_uuid.uuid4())
            self.stype[(t,)] = st
            self.tr_obj[t] = irast.TypeRef(id=st.id, name_hint=sn.QualName('default', f'T{t}'))
            ip = StubProp._create_from_id(_uuid.uuid4())
            self.ptr_info[ip] = {'exclusive': True}
            self.id_ptr[st] = ip
        for t in range(sch['ntypes']):
            _STUB['descs'][self.stype[(t,)]] = [self.stype[(d,)] for d in sch.get('descs', {}).get(t, [])]
            _STUB['children'][self.stype[(t,)]] = [self.stype[(d,)] for d in sch.get('children', {}).get(t, [])]
        self.ptrref = []
        self.ptrobj = []
        by_id, by_name = {}, {}
        for k, p in enumerate(sch['ptrs']):
            cls = StubProp if p['link'] is None else StubLink
            po = cls._create_from_id(_uuid.uuid4())
            self.ptr_info[po] = p
            card = qltypes.Cardinality.from_schema_value(
                p['required'], qltypes.SchemaCardinality.Many if p['multi'] else qltypes.SchemaCardinality.One)
            name = sn.QualName('default', f'p{k}')
            ref = irast.PointerRef(
                id=po.id, name=name, shortname=name, out_source=self.tr_obj[p['src']],
                out_target=self.tr_int if p['link'] is None else self.tr_obj[p['link']],
                out_cardinality=card, in_cardinality=qltypes.Cardinality.MANY)
            self.ptrref.append(ref)
            self.ptrobj.append(po)
            by_id[po.id] = po
            by_name[name] = po

        class StubSchema:
            def get_by_id(self, id, default=None, *, type=None):
                return by_id[id]

            def get(self, name, default=None, *, type=None, **kw):
                if str(name) == 'std::exclusive':
                    return outer.excl_constraint
                return by_name[name]

        class Env:
            def __init__(self):
                self.schema = StubSchema()
                self.inferred_volatility = {}
                self.scope_tree_nodes = {}
                self.warnings = []
                self.singletons = []
                self.set_types = {}
                self.schema_refs = []
                self.pointer_specified_info = {}

            def add_schema_ref(self, obj, expr):
                self.schema_refs.append(obj)

        self.env = Env()
        self.ctx = inf_context.make_ctx(self.env)
        self.root = irast.ScopeTreeNode(fenced=True, unique_id=self.uid())
        self.env.scope_tree_nodes[self.root.unique_id] = self.root

    # -- helpers
    def uid(self):
        self.n += 1
        return self.n

    def fence(self, parent):
        f = self.irast.ScopeTreeNode(fenced=True, unique_id=self.uid())
        parent.attach_child(f)
        self.env.scope_tree_nodes[f.unique_id] = f
        return f

    def pid(self, typeref):
        return self.pathid.PathId.from_typeref(
            typeref, typename=self.sn.QualName('__derived__', f'expr~{self.uid()}'))

    def norm(self, comps):
        """identity of an object type (mirror of `normTy` in the model)"""
        descs = self.sch.get('descs', {})
        d = list(dict.fromkeys(comps))
        return tuple(sorted(t for t in d if not any(u != t and t in descs.get(u, []) for u in d)))

    def stype_of(self, ty):
        """stub schema type of a component tuple; a union type has no descendants"""
        ty = self.norm(ty)
        if ty not in self.stype:
            st = self._StubObjType._create_from_id(_uuid.uuid4())
            ip = self._StubProp._create_from_id(_uuid.uuid4())
            self.ptr_info[ip] = {'exclusive': True}
            self.id_ptr[st] = ip
            self.stype[ty] = st
        return self.stype[ty]

    def mkset(self, expr, typeref, ty, path_id=None, **kw):
        if isinstance(ty, int):
            ty = (ty,)
        s = self.irast.Set(path_id=path_id or self.pid(typeref), typeref=typeref, expr=expr, **kw)
        self.env.set_types[s] = self.stype_of(ty) if ty is not None else None
        return s

    def param(self, i):
        return self.irast.Parameter(name=f'p{i}', required=bool(self.sch['params'][i]), typeref=self.tr_int)

    def tm(self, c):
        T = self.qlt.TypeModifier
        return {'S': T.SingletonType, 'O': T.OptionalType, 'A': T.SetOfType}[c]

    def opcall(self, name, tms, ret, args, typeref, ty):
        irast = self.irast
        a = {i: irast.CallArg(expr=s, param_typemod=self.tm(c)) for i, (s, c) in enumerate(zip(args, tms))}
        mod, _, nm = name.partition('::')
        e = irast.OperatorCall(
            func_polymorphic=False, func_shortname=self.sn.QualName(mod, nm), force_return_cast=False,
            args=a, typeref=typeref, typemod=self.tm(ret), tuple_path_ids=[],
            volatility=self.qlt.Volatility.Immutable, operator_kind=self.qlt.OperatorKind.Infix)
        return self.mkset(e, typeref, ty)

    def fncall(self, name, tms, ret, args, typeref, ty):
        irast = self.irast
        a = {i: irast.CallArg(expr=s, param_typemod=self.tm(c)) for i, (s, c) in enumerate(zip(args, tms))}
        mod, _, nm = name.partition('::')
        e = irast.FunctionCall(
            func_polymorphic=False, func_shortname=self.sn.QualName(mod, nm), force_return_cast=False,
            args=a, typeref=typeref, typemod=self.tm(ret), tuple_path_ids=[],
            volatility=self.qlt.Volatility.Immutable, func_sql_function=None)
        return self.mkset(e, typeref, ty)

    def view(self, inner, scope, kind):
        """a binding: `SELECT inner` as a view set (what declare_view / the result
        clause produce); references to it share path_id and expr"""
        irast = self.irast
        stmt = irast.SelectStmt(result=inner, implicit_wrapper=False)
        ty = self.ty_of.get(inner)
        s = self.mkset(stmt, inner.typeref, ty, is_binding=kind)
        self.ty_of[s] = ty
        return s

    # -- the translation; `binders` = list of binding sets, innermost first
    def build(self, t, binders, scope):
        self.ty_of = getattr(self, 'ty_of', {})
        s = self._build(t, binders, scope)
        return s

    def _ty(self, s):
        return self.ty_of.get(s)

    def _build(self, t, binders, scope):
        irast = self.irast
        k = t[0]
        if k == 'lit':
            return self.mkset(irast.IntegerConstant(value=str(t[1]), typeref=self.tr_int), self.tr_int, None)
        if k == 'empty':
            return self.mkset(irast.EmptySet(typeref=self.tr_int), self.tr_int, None)
        if k == 'cset':
            els = tuple(self.param(e[1]) if isinstance(e, tuple) else
                        irast.IntegerConstant(value=str(e), typeref=self.tr_int) for e in t[1])
            return self.mkset(irast.ConstantSet(elements=els, typeref=self.tr_int), self.tr_int, None)
        if k == 'param':
            return self.mkset(self.param(t[1]), self.tr_int, None)
        if k == 'var':
            b = binders[t[1]]
            s = self.mkset(b.expr, b.typeref, self._ty(b), path_id=b.path_id)
            self.ty_of[s] = self._ty(b)
            return s
        if k == 'root':
            tr = self.tr_obj[t[1]]
            s = self.mkset(irast.TypeRoot(typeref=tr), tr, t[1])
            self.ty_of[s] = (t[1],)
            return s
        if k == 'path':
            src = self._build(t[1], binders, scope)
            ref = self.ptrref[t[2]]
            p = self.sch['ptrs'][t[2]]
            ptr = irast.Pointer(source=src, ptrref=ref, direction=self.s_pointers.PointerDirection.Outbound,
                                is_definition=False)
            s = self.mkset(ptr, ref.out_target, p['link'], path_id=src.path_id.extend(ptrref=ref))
            self.ty_of[s] = None if p['link'] is None else (p['link'],)
            return s
        if k == 'tuple':
            els = [self._build(e, binders, scope) for e in t[1]]
            tr = irast.TypeRef(id=_uuid.uuid4(), name_hint=self.sn.QualName('std', f'tuple{self.uid()}'),
                               collection='tuple', subtypes=tuple(e.typeref for e in els))
            e = irast.Tuple(elements=[irast.TupleElement(name=str(i), val=x) for i, x in enumerate(els)],
                            typeref=tr)
            return self.mkset(e, tr, None)
        if k in ('union', 'coalesce'):
            a = self._build(t[1], binders, scope)
            b = self._build(t[2], binders, scope)
            name, tms = ('std::UNION', 'AA') if k == 'union' else ('std::??', 'OA')
            ty = self._ty(a)
            if k == 'union' and self._ty(a) is not None and self._ty(b) is not None:
                ty = self.norm(tuple(self._ty(a)) + tuple(self._ty(b)))      # the union type
            s = self.opcall(name, tms, 'A', [a, b], a.typeref, ty)
            self.ty_of[s] = ty
            return s
        if k == 'distinct':
            a = self._build(t[1], binders, scope)
            s = self.opcall('std::DISTINCT', 'A', 'A', [a], a.typeref, self._ty(a))
            self.ty_of[s] = self._ty(a)
            return s
        if k == 'if':
            a = self._build(t[1], binders, scope)
            c = self._build(t[2], binders, scope)
            b = self._build(t[3], binders, scope)
            s = self.opcall('std::IF', 'ASA', 'A', [a, c, b], a.typeref, self._ty(a))
            self.ty_of[s] = self._ty(a)
            return s
        if k == 'call':
            f = self.sch['fns'][t[1]]
            args = [self._build(e, binders, scope) for e in t[2]]
            mk = self.opcall if f['isOp'] else self.fncall
            return mk(f['name'], f['params'], f['ret'], args, self.tr_int, None)
        if k in ('filter', 'limit', 'limitc', 'offset'):
            if self.merge:
                a, flt, off, lim = peel_stmt(t)
            else:
                a, flt, off, lim = t[1], (t if k == 'filter' else None), (t if k == 'offset' else None), \
                    (t if k in ('limit', 'limitc') else None)
            f1 = self.fence(scope)
            res = self._build(a, binders, f1)
            ty = self._ty(res)
            kw = {}
            if flt is not None:
                # the result is registered in the statement's scope, the clause has its own fence
                f1.attach_child(irast.ScopeTreeNode(path_id=res.path_id))
                fw = self.fence(f1)
                w = self._build(flt[2], [res] + binders, fw)
                if w.path_scope_id is None:
                    w.path_scope_id = fw.unique_id
                kw['where'] = w
            for cl, name in ((off, 'offset'), (lim, 'limit')):
                if cl is None:
                    continue
                if cl[0] == 'limitc':
                    kw['limit'] = self.mkset(irast.IntegerConstant(value=str(cl[2]), typeref=self.tr_int),
                                             self.tr_int, None)
                else:
                    fk = self.fence(f1)
                    kk = self._build(cl[2], binders, fk)
                    if kk.path_scope_id is None:
                        kk.path_scope_id = fk.unique_id
                    kw[name] = kk
            stmt = irast.SelectStmt(result=res, **kw)
            s = self.mkset(stmt, res.typeref, ty, path_scope_id=f1.unique_id)
            self.ty_of[s] = ty
            return s
        if k == 'for':
            f1 = self.fence(scope)
            fi = self.fence(f1)
            inner = self._build(t[1], binders, fi)
            it = self.view(inner, fi, irast.BindingKind.For)
            it.path_scope_id = fi.unique_id
            f1.attach_child(irast.ScopeTreeNode(path_id=it.path_id))
            f2 = self.fence(f1)
            body = self._build(t[2], [it] + binders, f2)
            if body.path_scope_id is None:
                body.path_scope_id = f2.unique_id
            stmt = irast.SelectStmt(result=body, iterator_stmt=it)
            s = self.mkset(stmt, body.typeref, self._ty(body), path_scope_id=f1.unique_id)
            self.ty_of[s] = self._ty(body)
            return s
        raise ValueError(k)

    def infer(self, t):
        """-> 'CARD MULT dis' | 'reject' | 'EXC:<class>'"""
        from edb import errors
        from edb.edgeql.compiler import inference
        top = self.fence(self.root)
        try:
            s = self.build(t, [], top)
            if s.path_scope_id is None:
                s.path_scope_id = top.unique_id
            card = inference.infer_cardinality(s, scope_tree=self.root, ctx=self.ctx)
            mult = inference.infer_multiplicity(s, scope_tree=self.root, ctx=self.ctx)
        except errors.QueryError:
            return 'reject'
        return f'{card.value} {mult.own.value} {int(mult.disjoint_union)}'


# ------------------------------------------------------------------ toy eval
def bsid(n: int):
    return _uuid.UUID(f'ffffffff-ffff-ffff-ffff-{n:012x}')


class Toy:
    def __init__(self, sch, db, merge=True):
        self.merge = merge
        import shim  # noqa: F401
        from edb.tools import toy_eval_model as T
        from edb.edgeql import ast as qlast
        self.T, self.ql, self.sch = T, qlast, sch
        data = {}
        for (i, ty) in db['objs']:
            data[bsid(i)] = {'id': bsid(i), '__type__': f'T{ty}'}
        for (p, i), vals in db['ptrs'].items():
            pd = sch['ptrs'][p]
            vs = [T.Obj(bsid(v[1])) if isinstance(v, tuple) else v for v in vals]
            if pd['multi']:
                data[bsid(i)][f'p{p}'] = vs
            elif vs:
                data[bsid(i)][f'p{p}'] = vs[0]
        self.db = T.DB(data, {})
        self.params = list(db.get('params', []))

    def q(self, t, depth=0):
        ql = self.ql
        k = t[0]
        if k == 'lit':
            return ql.Constant(kind=ql.ConstantKind.INTEGER, value=str(t[1]))
        if k == 'empty':
            return ql.Set(elements=[])
        if k == 'cset':
            return ql.Set(elements=[self.pval(e[1]) if isinstance(e, tuple) else
                                    ql.Constant(kind=ql.ConstantKind.INTEGER, value=str(e)) for e in t[1]])
        if k == 'param':
            return self.pval(t[1])
        if k == 'var':
            # wrapped in a SELECT so that no implicit path factoring applies
            return ql.SelectQuery(result=ql.Path(steps=[ql.ObjectRef(name=f'x{depth - 1 - t[1]}')]))
        if k == 'root':
            # the toy model has no inheritance (`__type__` is one exact type): a type with descendants is
            # expanded into the UNION of the exact types of its lineage, in ascending type order (= database
            # order, objects are stored sorted by type)
            lin = sorted(lineage(self.sch, t[1]))
            e = None
            for x in lin:
                r = ql.DetachedExpr(expr=ql.Path(steps=[ql.ObjectRef(name=f'T{x}')]))
                e = r if e is None else ql.BinOp(op='UNION', left=e, right=r)
            return e
        if k == 'path':
            src = self.q(t[1], depth)
            step = ql.Ptr(name=f'p{t[2]}')
            if isinstance(src, ql.Path):
                return ql.Path(steps=list(src.steps) + [step])
            return ql.Path(steps=[src, step])
        if k == 'tuple':
            return ql.Tuple(elements=[self.q(e, depth) for e in t[1]])
        if k == 'union':
            return ql.BinOp(op='UNION', left=self.q(t[1], depth), right=self.q(t[2], depth))
        if k == 'coalesce':
            return ql.BinOp(op='??', left=self.q(t[1], depth), right=self.q(t[2], depth))
        if k == 'distinct':
            return ql.UnaryOp(op='DISTINCT', operand=self.q(t[1], depth))
        if k == 'if':
            return ql.IfElse(if_expr=self.q(t[1], depth), condition=self.q(t[2], depth),
                             else_expr=self.q(t[3], depth))
        if k == 'call':
            f = self.sch['fns'][t[1]]
            kind, op = f['toy']
            args = [self.q(e, depth) for e in t[2]]
            if kind == 'func':
                return ql.FunctionCall(func=op, args=args)
            if kind == 'unop':
                return ql.UnaryOp(op=op, operand=args[0])
            return ql.BinOp(op=op, left=args[0], right=args[1])
        if k in ('filter', 'limit', 'limitc', 'offset') and self.merge:
            a, flt, off, lim = peel_stmt(t)
            kw = {}
            if flt is not None:
                kw['result_alias'] = f'x{depth}'
                kw['where'] = self.q(flt[2], depth + 1)
            if off is not None:
                kw['offset'] = self.q(off[2], depth)
            if lim is not None:
                kw['limit'] = (ql.Constant(kind=ql.ConstantKind.INTEGER, value=str(lim[2])) if lim[0] == 'limitc'
                               else self.q(lim[2], depth))
            return ql.SelectQuery(result=self.q(a, depth), **kw)
        if k == 'filter':
            return ql.SelectQuery(result=self.q(t[1], depth), result_alias=f'x{depth}',
                                  where=self.q(t[2], depth + 1))
        if k == 'limit':
            return ql.SelectQuery(result=self.q(t[1], depth), limit=self.q(t[2], depth))
        if k == 'limitc':
            return ql.SelectQuery(result=self.q(t[1], depth),
                                  limit=ql.Constant(kind=ql.ConstantKind.INTEGER, value=str(t[2])))
        if k == 'offset':
            return ql.SelectQuery(result=self.q(t[1], depth), offset=self.q(t[2], depth))
        if k == 'for':
            return ql.ForQuery(iterator=self.q(t[1], depth), iterator_alias=f'x{depth}',
                               result=self.q(t[2], depth + 1))
        raise ValueError(k)

    def pval(self, i):
        """the toy model has no parameters: `$i` is replaced by the argument it is bound to (`{}` for an
        optional parameter that is not given)"""
        ql = self.ql
        v = self.params[i] if i < len(self.params) else None
        if v is None:
            return ql.Set(elements=[])
        return ql.Constant(kind=ql.ConstantKind.INTEGER, value=str(v))

    def canon(self, v) -> str:
        T = self.T
        if isinstance(v, T.Obj):
            return f'o{int(v.id.hex[-12:], 16)}'
        if isinstance(v, bool):
            return '1' if v else '0'
        if isinstance(v, int):
            return str(v)
        if isinstance(v, float):
            return repr(v)
        if isinstance(v, tuple):
            return '(' + ','.join(self.canon(x) for x in v) + ')'
        raise TypeError(f'toy value {v!r}')

    def run(self, t):
        """-> (list of canonical strings) ; raises whatever the toy model raises"""
        res = self.T.toplevel_query(self.q(t), self.db)
        return [self.canon(v) for v in res]


# --------------------------------------------------------------- generators
def gen_schema(rng, ntypes=2, nptrs=6, inherit=True):
    children = {}
    if inherit:
        for t in range(1, ntypes):
            if rng.random() < 0.45:
                for b in rng.sample(range(t), 2 if (t >= 2 and rng.random() < 0.3) else 1):
                    children.setdefault(b, []).append(t)
    descs = descs_of(children, ntypes)
    ptrs = []
    for _ in range(nptrs):
        link = rng.choice([None, None, None] + list(range(ntypes)))
        multi = rng.random() < 0.4
        ptrs.append(dict(src=rng.randrange(ntypes), required=rng.random() < 0.5, multi=multi, link=link,
                         exclusive=(link is None and rng.random() < 0.45) or (link is not None and rng.random() < 0.2)))
    return {'ptrs': ptrs, 'fns': [dict(f) for f in STD_FNS], 'ntypes': ntypes, 'children': children,
            'params': [rng.random() < 0.4 for _ in range(rng.randint(0, 3))],
            'descs': {t: d for t, d in descs.items() if d}}


def gen_db(rng, sch, nobj=None):
    """a database conforming to the schema (required / single / link targets a
    set of the right type / exclusive values globally distinct per pointer)"""
    nobj = nobj if nobj is not None else rng.randint(0, 6)
    # objects sorted by exact type (so that the extent of a type is in the same order as the toy model's
    # per-type expansion); `by_ty[t]`: the objects that belong to t (exact type in the lineage of t)
    tys = sorted(rng.randrange(sch['ntypes']) for _ in range(nobj))
    objs = [(i + 1, ty) for i, ty in enumerate(tys)]
    by_ty = {t: [i for i, ty in objs if ty in lineage(sch, t)] for t in range(sch['ntypes'])}
    ptrs = {}
    for p, pd in enumerate(sch['ptrs']):
        used = set()
        srcs = by_ty[pd['src']]
        for i in srcs:
            if pd['link'] is not None:
                pool = [('o', j) for j in by_ty[pd['link']]]
            else:
                pool = list(range(0, 4)) if p % 2 else [0, 1]      # small domains: equal values are common
            if pd['exclusive']:
                pool = [x for x in (pool if pd['link'] is not None else list(range(0, 40))) if x not in used]
            lo = 1 if pd['required'] else 0
            hi = 3 if pd['multi'] else 1
            n = rng.randint(lo, hi)
            if pd['link'] is not None or pd['exclusive']:
                n = min(n, len(pool))
                vals = rng.sample(pool, n)
            else:
                vals = [rng.choice(pool) for _ in range(n)]      # multi properties may repeat a value
            if len(vals) < lo:
                return None        # cannot satisfy `required` (no target objects): caller retries
            used.update(vals)
            if vals:
                ptrs[(p, i)] = vals
    # arguments: required parameters get a value, optional ones are empty half of the time
    params = [rng.randint(0, 3) if (req or rng.random() < 0.5) else None for req in sch.get('params', [])]
    return {'objs': objs, 'ptrs': ptrs, 'params': params}


class TermGen:
    """type-directed generator: `ty` is None (scalar int / bool), ('obj', t) or 'tuple'"""

    def __init__(self, rng, sch, with_paths=True, toy_safe=False):
        self.rng, self.sch, self.with_paths, self.toy_safe = rng, sch, with_paths, toy_safe

    def gen(self, depth, env, want='any'):
        """env: list of types of bound variables (innermost first); returns (term, ty)"""
        r = self.rng
        if want == 'any':
            want = r.choice(['int', 'int', 'int', 'obj', 'obj', 'tuple']) if self.with_paths else \
                r.choice(['int', 'int', 'int', 'tuple'])
        if want == 'obj' and not self.with_paths:
            want = 'int'
        if want == 'obj':
            return self.gen_obj(depth, env, r.randrange(self.sch['ntypes']))
        if want == 'tuple':
            return self.gen_tuple(depth, env)
        return self.gen_int(depth, env)

    def leaves_int(self, env):
        r = self.rng
        c = [('lit', r.randint(0, 3)), ('lit', r.randint(0, 3)), ('empty',),
             ('cset', tuple(r.randint(0, 3) for _ in range(r.randint(1, 3))))]
        c += [('var', i) for i, t in enumerate(env) if t is None]
        np_ = len(self.sch.get('params', []))
        if np_:
            c.append(('param', r.randrange(np_)))
            # set literals of constants and parameters (folded into a ConstantSet by the front-end)
            c.append(('cset', tuple(('p', r.randrange(np_)) if r.random() < 0.6 else r.randint(0, 3)
                                    for _ in range(r.randint(2, 3)))))
        return c

    def gen_int(self, depth, env):
        r = self.rng
        if depth <= 0 or r.random() < 0.15:
            return r.choice(self.leaves_int(env)), None
        sub = lambda w='int': self.gen(depth - 1, env, w)[0]      # noqa: E731
        ch = r.random()
        if ch < 0.22:
            f = r.choice(['plus', 'mul', 'eq', 'ne', 'lt', 'opteq', 'in', 'not', 'and', 'or', 'count',
                          'exists', 'sum', 'any', 'min'])
            if self.toy_safe and f == 'min':
                f = 'sum'
            d = STD_FNS[FN_IX[f]]
            args = []
            if f in ('and', 'or', 'not', 'any'):
                # boolean operands (the toy model's AND / OR are Python's bitwise operators)
                return ('call', FN_IX[f], tuple(self.gen_bool(depth - 1, env) for _ in d['params'])), None
            if f == 'opteq' and self.toy_safe:
                # the toy model's `?=` is only the OPTIONAL-parameter semantics on operands of
                # at most one element (`opt_eq` returns ONE value when one side is empty)
                def single():
                    x = sub()
                    return x if x[0] in ('lit', 'empty', 'var') else ('limitc', x, 1)
                return ('call', FN_IX[f], (single(), single())), None
            for c in d['params']:
                if f in ('count', 'exists') and self.with_paths and r.random() < 0.5:
                    args.append(self.gen(depth - 1, env, r.choice(['obj', 'int', 'tuple']))[0])
                elif f in ('eq', 'ne', 'opteq', 'in') and self.with_paths and r.random() < 0.25:
                    t = r.randrange(self.sch['ntypes'])
                    args = [self.gen_obj(depth - 1, env, t)[0] for _ in d['params']]
                    break
                else:
                    args.append(sub())
            return ('call', FN_IX[f], tuple(args)), None
        if ch < 0.30 and self.with_paths:
            # a property path
            props = [k for k, p in enumerate(self.sch['ptrs']) if p['link'] is None]
            if props:
                k = r.choice(props)
                src = self.gen_obj(depth - 1, env, self.sch['ptrs'][k]['src'])[0]
                return ('path', src, k), None
        return self.gen_generic(depth, env, 'int', None)

    def gen_bool(self, depth, env):
        """a term whose values are 0 / 1"""
        r = self.rng
        if depth <= 0 or r.random() < 0.2:
            return ('lit', r.randint(0, 1))
        f = r.choice(['eq', 'ne', 'lt', 'in', 'exists', 'not', 'and', 'or'])
        d = STD_FNS[FN_IX[f]]
        if f in ('and', 'or', 'not'):
            return ('call', FN_IX[f], tuple(self.gen_bool(depth - 1, env) for _ in d['params']))
        return ('call', FN_IX[f], tuple(self.gen_int(depth - 1, env)[0] for _ in d['params']))

    def gen_generic(self, depth, env, want, ty):
        r = self.rng
        sub = lambda: (self.gen_obj(depth - 1, env, ty[1])[0] if want == 'obj' else  # noqa: E731
                       self.gen(depth - 1, env, want)[0])
        ch = r.random()
        if ch < 0.14:
            return ('union', sub(), sub()), ty
        if ch < 0.22:
            return ('distinct', sub()), ty
        if ch < 0.30:
            return ('coalesce', sub(), sub()), ty
        if ch < 0.38:
            return ('if', sub(), self.gen_int(depth - 1, env)[0], sub()), ty
        if ch < 0.56:
            a = sub()
            w = self.gen_filter(depth - 1, [ty] + env, ty)
            return ('filter', a, w), ty
        if ch < 0.64:
            return ('limitc', sub(), r.choice([0, 1, 1, 2, 3])), ty
        if ch < 0.72:
            k = self.gen_int(depth - 1, env)[0] if r.random() < 0.3 else \
                r.choice([('lit', r.randint(0, 3)), ('empty',), ('call', FN_IX['plus'],
                                                                 (('lit', 1), ('lit', r.randint(0, 2))))])
            which = r.choice(['limit', 'offset'])
            if which == 'limit' and k[0] == 'lit':
                return ('limitc', sub(), k[1]), ty      # a literal LIMIT is the static form
            return (which, sub(), k), ty
        if ch < 0.9:
            itw = r.choice(['int', 'int', 'obj']) if self.with_paths else 'int'
            it, ity = self.gen(depth - 1, env, itw)
            if want == 'obj':
                body = self.gen_obj(depth - 1, [ity] + env, ty[1])[0]
            else:
                body = self.gen(depth - 1, [ity] + env, want)[0]
            return ('for', it, body), ty
        return sub(), ty

    def gen_filter(self, depth, env, ty):
        """a FILTER clause over the subject var 0 (type ty); biased to equality filters"""
        r = self.rng
        if ty is not None and ty != 'tuple' and r.random() < 0.7:
            t = ty[1]
            ptrs = [k for k, p in enumerate(self.sch['ptrs']) if p['src'] == t]

            def one():
                if ptrs and r.random() < 0.85:
                    k = r.choice(ptrs)
                    p = self.sch['ptrs'][k]
                    lhs = ('path', ('var', 0), k)
                    if p['link'] is not None:
                        # maybe a second step
                        ptrs2 = [j for j, q in enumerate(self.sch['ptrs']) if q['src'] == p['link']]
                        if ptrs2 and r.random() < 0.4:
                            j = r.choice(ptrs2)
                            lhs = ('path', lhs, j)
                            p = self.sch['ptrs'][j]
                    if p['link'] is not None:
                        rhs = self.gen_obj(max(depth - 1, 0), env, p['link'])[0]
                    elif r.random() < 0.5:
                        rhs = ('lit', r.randint(0, 1))
                    else:
                        rhs = self.gen_int(max(depth - 1, 0), env)[0]
                else:
                    lhs = ('var', 0)
                    rhs = self.gen_obj(max(depth - 1, 0), env, t)[0]
                if r.random() < 0.3:
                    lhs, rhs = rhs, lhs
                return ('call', FN_IX['eq'], (lhs, rhs))
            if r.random() < 0.25:
                return ('call', FN_IX['and'], (one(), one()))
            return one()
        return self.gen_int(depth, env)[0]

    def gen_obj(self, depth, env, t):
        r = self.rng
        ty = ('obj', t)
        leaves = [('root', t)] + [('var', i) for i, e in enumerate(env) if e == ty]
        if depth <= 0 or r.random() < 0.25:
            return r.choice(leaves), ty
        if r.random() < 0.3:
            links = [k for k, p in enumerate(self.sch['ptrs']) if p['link'] == t]
            if links:
                k = r.choice(links)
                src = self.gen_obj(depth - 1, env, self.sch['ptrs'][k]['src'])[0]
                return ('path', src, k), ty
        return self.gen_generic(depth, env, 'obj', ty)

    def gen_tuple(self, depth, env):
        r = self.rng
        if depth <= 0:
            return ('tuple', (r.choice(self.leaves_int(env)), r.choice(self.leaves_int(env)))), 'tuple'
        if r.random() < 0.6:
            n = r.randint(0, 3)
            return ('tuple', tuple(self.gen(depth - 1, env, r.choice(['int', 'int', 'obj']))[0]
                                   for _ in range(n))), 'tuple'
        return self.gen_generic(depth, env, 'tuple', 'tuple')
