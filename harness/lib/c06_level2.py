"""Level-2 stream for C06: well-typed MiniQL terms printed as EdgeQL text, compiled by the
REAL compiler (text -> real tokenizer/grammar via harness/bridge -> compile_ast_to_ir) and
evaluated by the REAL toy_eval_model on the same text.

A generated case is a pair (MiniQL term, EdgeQL text) built together by a type-directed
generator.  Conventions that keep the text inside the calculus (no implicit path factoring):

* object roots are printed `(DETACHED T<t>)`;
* a FILTER subject and a FOR iterator are named (`SELECT y := (…) FILTER …`, `FOR x IN …`);
* a case in which two path expressions rooted at the same variable share a prefix is
  rejected (`linear`): EdgeQL would factor them, the calculus evaluates them independently.
"""
from __future__ import annotations

from lib.c06_miniql import FN_IX, STD_FNS

INT, BOOL = 'int', 'bool'


def toy_text(text: str, sch) -> str:
    """the toy model has no inheritance: `(DETACHED Tn)` is expanded, for the toy only, into the UNION of the
    exact types of the lineage of Tn (ascending = database order)"""
    import re
    from lib.c06_miniql import lineage

    def rep(m):
        lin = sorted(lineage(sch, int(m.group(1))))
        if len(lin) == 1:
            return m.group(0)
        return '(' + ' union '.join(f'(DETACHED T{x})' for x in lin) + ')'
    text = re.sub(r'\(DETACHED T(\d+)\)', rep, text)
    return text


def bind_params(text: str, params) -> str:
    """the toy model has no query parameters: `<int64>$pI` / `<optional int64>$pI` is replaced by the argument
    it is bound to (`<int64>{}` when an optional parameter is not given)"""
    import re

    def rep(m):
        v = params[int(m.group(2))] if int(m.group(2)) < len(params) else None
        return '<int64>{}' if v is None else str(v)
    return re.sub(r'<(optional )?int64>\$p(\d+)', rep, text)


def sdl_of(sch) -> str:
    out = []
    bases = {}
    for b, cs in sch.get('children', {}).items():
        for c in cs:
            bases.setdefault(c, []).append(b)
    for t in range(sch['ntypes']):
        body = []
        for k, p in enumerate(sch['ptrs']):
            if p['src'] != t:
                continue
            q = ('required ' if p['required'] else '') + ('multi ' if p['multi'] else '')
            tgt = 'int64' if p['link'] is None else f"T{p['link']}"
            ex = ' { constraint exclusive }' if p['exclusive'] else ''
            body.append(f'  {q}p{k}: {tgt}{ex};')
        ext = (' extending ' + ', '.join(f'T{b}' for b in sorted(bases[t]))) if t in bases else ''
        out.append(f'type T{t}{ext} {{\n' + '\n'.join(body) + '\n}' if body else f'type T{t}{ext};')
    return '\n'.join(out)


def type_text(ty) -> str:
    if ty == INT:
        return 'int64'
    if ty == BOOL:
        return 'bool'
    if ty[0] == 'obj':
        return f'T{ty[1]}'
    return 'tuple<' + ', '.join(type_text(t) for t in ty[1]) + '>'


class TypedGen:
    """returns (term, text); env = list of (type, name) innermost first"""

    def __init__(self, rng, sch):
        self.r, self.sch = rng, sch
        self.paths = []          # (var name, (pointer chain)) of every var-rooted path generated

    def fresh(self, env):
        self.nvar = getattr(self, 'nvar', 0) + 1
        return f'x{self.nvar}'

    def gen(self, d, env, ty):
        if ty == INT:
            return self.gen_int(d, env)
        if ty == BOOL:
            return self.gen_bool(d, env)
        if ty[0] == 'obj':
            return self.gen_obj(d, env, ty)
        return self.gen_tuple(d, env, ty)

    def rand_type(self, allow_tuple=True):
        r = self.r
        x = r.random()
        if x < 0.35:
            return INT
        if x < 0.5:
            return BOOL
        if x < 0.85 or not allow_tuple:
            return ('obj', r.randrange(self.sch['ntypes']))
        # tuple components are scalars: the front-end re-packs tuples with object components when they
        # are passed as SET OF / OPTIONAL arguments (opaque tuple indirections), which the calculus ignores
        return ('tuple', tuple(r.choice([INT, INT, BOOL]) for _ in range(r.randint(2, 3))))

    def vars_of(self, env, ty):
        # the subject of an object FILTER (named '.k') is only reachable through partial paths
        return [(('var', i), n) for i, (t, n) in enumerate(env) if t == ty and not n.startswith('.')]

    def leaf(self, env, ty):
        r = self.r
        c = self.vars_of(env, ty)
        if ty == INT:
            c += [(('lit', n), str(n)) for n in (r.randint(0, 3), r.randint(0, 3))]
            c.append((('empty',), '<int64>{}'))
            ns = tuple(r.randint(0, 3) for _ in range(r.randint(2, 3)))
            c.append((('cset', ns), '{' + ', '.join(map(str, ns)) + '}'))
            ps = self.sch.get('params', [])
            if ps:
                ptx = lambda i: ('<int64>' if ps[i] else '<optional int64>') + f'$p{i}'      # noqa: E731
                i = r.randrange(len(ps))
                c.append((('param', i), '(' + ptx(i) + ')'))
                # a set literal of constants and parameters: the front-end folds it into a ConstantSet
                es = tuple(('p', r.randrange(len(ps))) if r.random() < 0.6 else r.randint(0, 3)
                           for _ in range(r.randint(2, 3)))
                c.append((('cset', es), '{' + ', '.join(ptx(e[1]) if isinstance(e, tuple) else str(e)
                                                         for e in es) + '}'))
        elif ty == BOOL:
            # an empty bool is written as a comparison with an empty operand (the toy model has no bool cast)
            c += [(('lit', 1), 'true'), (('lit', 0), 'false'),
                  (('call', FN_IX['eq'], (('empty',), ('lit', 0))), '(<int64>{} = 0)')]
        elif ty[0] == 'obj':
            c += [(('root', ty[1]), f'(DETACHED T{ty[1]})')] * 2
        else:
            parts = [self.leaf(env, t) for t in ty[1]]
            return ('tuple', tuple(p[0] for p in parts)), '(' + ', '.join(p[1] for p in parts) + ')'
        return r.choice(c)

    def generic(self, d, env, ty):
        r = self.r
        sub = lambda: self.gen(d - 1, env, ty)        # noqa: E731
        x = r.random()
        if x < 0.13:
            (a, ta), (b, tb) = sub(), sub()
            if ty[0] == 'obj':
                self.obj_union = True
            return ('union', a, b), f'({ta} union {tb})'
        if x < 0.20:
            a, ta = sub()
            return ('distinct', a), f'(distinct {ta})'
        if x < 0.28:
            (a, ta), (b, tb) = sub(), sub()
            return ('coalesce', a, b), f'({ta} ?? {tb})'
        if x < 0.36:
            (a, ta), (b, tb) = sub(), sub()
            c, tc = self.gen_bool(d - 1, env)
            return ('if', a, c, b), f'({ta} if {tc} else {tb})'
        if x < 0.56:
            a, ta = sub()
            if ty[0] == 'obj':
                # no alias (an alias gives the subject a view type of its own): the clause refers to the
                # subject through partial paths only
                self.nfilter = getattr(self, 'nfilter', 0) + 1
                y = f'.{self.nfilter}'
                w, tw = self.gen_filter(d - 1, [(ty, y)] + env, ty, y)
                return ('filter', a, w), f'(select {ta} filter {tw})'
            y = self.fresh(env)
            w, tw = self.gen_filter(d - 1, [(ty, y)] + env, ty, y)
            return ('filter', a, w), f'(select {y} := {ta} filter {tw})'
        if x < 0.64:
            a, ta = sub()
            n = r.choice([0, 1, 1, 2, 3])
            return ('limitc', a, n), f'(select {ta} limit {n})'
        if x < 0.72:
            a, ta = sub()
            k, tk = self.gen_int(max(d - 2, 0), env) if r.random() < 0.4 else \
                (('call', FN_IX['plus'], (('lit', 1), ('lit', 1))), '(1 + 1)')
            if k[0] == 'lit':
                k, tk = ('call', FN_IX['plus'], (k, ('lit', 0))), f'({tk} + 0)'
            which = r.choice(['limit', 'offset'])
            return (which, a, k), f'(select {ta} {which} {tk})'
        if x < 0.92:
            ity = self.rand_type(False)
            if ity[0] == 'obj':
                self.obj_iter = True
            it, tit = self.gen(d - 1, env, ity)
            xn = self.fresh(env)
            body, tb = self.gen(d - 1, [(ity, xn)] + env, ty)
            return ('for', it, body), f'(for {xn} in {tit} union {tb})'
        return sub()

    def gen_filter(self, d, env, ty, y):
        r = self.r
        if ty[0] == 'obj' and r.random() < 0.75:
            t = ty[1]
            ptrs = [k for k, p in enumerate(self.sch['ptrs']) if p['src'] == t]

            def one():
                if ptrs:
                    k = r.choice(ptrs)
                    p = self.sch['ptrs'][k]
                    chain = [k]
                    if p['link'] is not None:
                        ptrs2 = [j for j, q in enumerate(self.sch['ptrs']) if q['src'] == p['link']]
                        if ptrs2 and r.random() < 0.4:
                            chain.append(r.choice(ptrs2))
                            p = self.sch['ptrs'][chain[-1]]
                    lhs = ('var', 0)
                    for k_ in chain:
                        lhs = ('path', lhs, k_)
                    tl = ''.join(f'.p{k_}' for k_ in chain)
                    self.paths.append((y, tuple(chain)))
                    rty = INT if p['link'] is None else ('obj', p['link'])
                else:
                    return self.gen_bool(d, env)
                same = [j for j, q in enumerate(self.sch['ptrs']) if q['src'] == t and j != chain[0]
                        and (INT if q['link'] is None else ('obj', q['link'])) == rty]
                if same and r.random() < 0.15:
                    j = r.choice(same)          # the other side is a path from the subject as well
                    rhs, tr = ('path', ('var', 0), j), f'.p{j}'
                    self.paths.append((y, (j,)))
                elif rty == INT and r.random() < 0.5:
                    n = r.randint(0, 1)
                    rhs, tr = ('lit', n), str(n)
                else:
                    rhs, tr = self.gen(max(d - 1, 0), env, rty)
                if r.random() < 0.3:
                    return ('call', FN_IX['eq'], (rhs, lhs)), f'({tr} = {tl})'
                return ('call', FN_IX['eq'], (lhs, rhs)), f'({tl} = {tr})'
            if r.random() < 0.25:
                (a, ta), (b, tb) = one(), one()
                return ('call', FN_IX['and'], (a, b)), f'({ta} and {tb})'
            return one()
        return self.gen_bool(d, env)

    def path_from(self, d, env, src_ty, k):
        """(term, text) of `<src>.p<k>` with src of object type src_ty"""
        src, ts = self.gen_obj(d, env, src_ty)
        chain = []
        q = src
        while q[0] == 'path':
            chain.append(q[2])
            q = q[1]
        if q[0] == 'var':
            name = ts.split('.')[0]
            self.paths.append((name, tuple(reversed(chain)) + (k,)))
        return ('path', src, k), f'{ts}.p{k}'

    def gen_int(self, d, env):
        r = self.r
        if d <= 0 or r.random() < 0.15:
            return self.leaf(env, INT)
        x = r.random()
        if x < 0.12:
            f = r.choice(['plus', 'mul'])
            (a, ta), (b, tb) = self.gen_int(d - 1, env), self.gen_int(d - 1, env)
            return ('call', FN_IX[f], (a, b)), f"({ta} {'+' if f == 'plus' else '*'} {tb})"
        if x < 0.22:
            f = r.choice(['count', 'sum'])      # std::min has preserves_optionality: not in the calculus
            a, ta = self.gen(d - 1, env, self.rand_type()) if f == 'count' else self.gen_int(d - 1, env)
            return ('call', FN_IX[f], (a,)), f'{f}({ta})'
        if x < 0.34:
            props = [k for k, p in enumerate(self.sch['ptrs']) if p['link'] is None]
            if props:
                k = r.choice(props)
                return self.path_from(d - 1, env, ('obj', self.sch['ptrs'][k]['src']), k)
        return self.generic(d, env, INT)

    def gen_bool(self, d, env):
        r = self.r
        if d <= 0 or r.random() < 0.15:
            return self.leaf(env, BOOL)
        x = r.random()
        if x < 0.35:
            f = r.choice(['eq', 'ne', 'lt', 'opteq', 'in'])
            ty = INT if f == 'lt' or r.random() < 0.7 else ('obj', r.randrange(self.sch['ntypes']))
            (a, ta), (b, tb) = self.gen(d - 1, env, ty), self.gen(d - 1, env, ty)
            if f == 'opteq':
                # compared with the toy model only on operands of at most one element
                if a[0] not in ('lit', 'empty', 'var'):
                    a, ta = ('limitc', a, 1), f'(select {ta} limit 1)'
                if b[0] not in ('lit', 'empty', 'var'):
                    b, tb = ('limitc', b, 1), f'(select {tb} limit 1)'
            op = {'eq': '=', 'ne': '!=', 'lt': '<', 'opteq': '?=', 'in': 'in'}[f]
            return ('call', FN_IX[f], (a, b)), f'({ta} {op} {tb})'
        if x < 0.45:
            a, ta = self.gen(d - 1, env, self.rand_type())
            return ('call', FN_IX['exists'], (a,)), f'(exists {ta})'
        if x < 0.6:
            f = r.choice(['and', 'or'])
            (a, ta), (b, tb) = self.gen_bool(d - 1, env), self.gen_bool(d - 1, env)
            return ('call', FN_IX[f], (a, b)), f'({ta} {f} {tb})'
        if x < 0.66:
            a, ta = self.gen_bool(d - 1, env)
            return ('call', FN_IX['not'], (a,)), f'(not {ta})'
        if x < 0.70:
            a, ta = self.gen_bool(d - 1, env)
            return ('call', FN_IX['any'], (a,)), f'any({ta})'
        return self.generic(d, env, BOOL)

    def gen_obj(self, d, env, ty):
        r = self.r
        if d <= 0 or r.random() < 0.25:
            return self.leaf(env, ty)
        if r.random() < 0.3:
            links = [k for k, p in enumerate(self.sch['ptrs']) if p['link'] == ty[1]]
            if links:
                k = r.choice(links)
                return self.path_from(d - 1, env, ('obj', self.sch['ptrs'][k]['src']), k)
        return self.generic(d, env, ty)

    def gen_tuple(self, d, env, ty):
        r = self.r
        if d <= 0 or r.random() < 0.6:
            parts = [self.gen(max(d - 1, 0), env, t) for t in ty[1]]
            return ('tuple', tuple(p[0] for p in parts)), '(' + ', '.join(p[1] for p in parts) + ')'
        return self.generic(d, env, ty)

    def linear(self) -> bool:
        """no two var-rooted path occurrences share a non-empty prefix; and no UNION of objects in a query
        with a FOR iterator over objects (the iterator alias is a view type of its own, which makes UNION's
        `types_disjoint` test succeed -- finding `union-of-aliased-subqueries…`; view types are not in the calculus)"""
        if getattr(self, 'obj_union', False) and getattr(self, 'obj_iter', False):
            return False
        seen = set()
        for name, chain in self.paths:
            pre = {(name, chain[:i]) for i in range(1, len(chain) + 1)}
            if pre & seen:
                return False
            seen |= pre
        return True


# ------------------------------------------------------------------ statement-clause combinations
COMBO_SCHEMA = {
    'ntypes': 2,
    'ptrs': [dict(src=0, required=True, multi=False, link=None, exclusive=True),
             dict(src=0, required=True, multi=False, link=None, exclusive=False),
             dict(src=0, required=False, multi=True, link=1, exclusive=False),
             dict(src=0, required=False, multi=False, link=0, exclusive=False)],
}
COMBO_DB = {'objs': [(1, 0), (2, 0), (3, 1)],
            'ptrs': {(0, 1): [5], (0, 2): [6], (1, 1): [7], (1, 2): [7], (2, 1): [('o', 3)], (2, 2): [('o', 3)]}}


def stmt_combos():
    """Every combination of FILTER {no, true, false, equality on an exclusive property} x OFFSET {no, static 0, static beyond the size, computed 0,
    computed beyond the size} x LIMIT {no, static 0, static 1, static 2, computed 1, computed 0} in ONE
    `SELECT` statement over a source of each cardinality (empty / non-empty where both exist), at top level,
    as an operand of UNION, and (text only) as a computed shape element.
    -> list of dicts {name, term, text, pos}"""
    plus = FN_IX['plus']
    srcs = [
        ('one', ('lit', 1), '1', True),
        ('amo-empty', ('empty',), '<int64>{}', True),
        ('amo-nonempty', ('if', ('lit', 1), ('lit', 1), ('empty',)), '(1 if true else <int64>{})', True),
        ('alo', ('cset', (1, 2, 3)), '{1, 2, 3}', True),
        ('many', ('if', ('cset', (1, 2, 3)), ('lit', 1), ('empty',)), '({1, 2, 3} if true else <int64>{})', True),
        ('many-obj', ('root', 0), '(DETACHED T0)', False),
    ]
    offs = [('no', None, None), ('s0', ('lit', 0), '0'), ('s5', ('lit', 5), '5'),
            ('c0', ('call', plus, (('lit', 0), ('lit', 0))), '(0 + 0)'),
            ('c5', ('call', plus, (('lit', 5), ('lit', 0))), '(5 + 0)')]
    lims = [('no', None, None), ('s0', 0, '0'), ('s1', 1, '1'), ('s2', 2, '2'),
            ('c1', ('call', plus, (('lit', 1), ('lit', 0))), '(1 + 0)'),
            ('c0', ('call', plus, (('lit', 0), ('lit', 0))), '(0 + 0)')]
    out = []
    eq = FN_IX['eq']
    for sn, st, stx, is_int in srcs:
        for fl in (False, True, 'false', 'excl'):
            if fl == 'excl' and sn != 'many-obj':
                continue
            for on, ot, otx in offs:
                for ln, lt, ltx in lims:
                    if not fl and ot is None and lt is None:
                        continue
                    t, tx = st, f'select {stx}'
                    if fl == 'excl':
                        # equality filter on the exclusive property p0: the AT_MOST_ONE rule, then the clauses
                        t, tx = ('filter', t, ('call', eq, (('path', ('var', 0), 0), ('lit', 5)))), tx + ' filter .p0 = 5'
                    elif fl == 'false':
                        t, tx = ('filter', t, ('lit', 0)), tx + ' filter false'
                    elif fl:
                        t, tx = ('filter', t, ('lit', 1)), tx + ' filter true'
                    if ot is not None:
                        t, tx = ('offset', t, ot), tx + f' offset {otx}'
                    if lt is not None:
                        t = ('limitc', t, lt) if isinstance(lt, int) else ('limit', t, lt)
                        tx += f' limit {ltx}'
                    name = f'{sn}/{"x" if fl == "excl" else "ff" if fl == "false" else "f" if fl else "-"}/off-{on}/lim-{ln}'
                    out.append(dict(name=name + '/top', term=t, text=f'select ({tx})', pos='top'))
                    if is_int and not fl:
                        out.append(dict(name=name + '/operand', term=('union', t, ('empty',)),
                                        text=f'select (({tx}) union <int64>{{}})', pos='operand'))
                    if not fl:
                        out.append(dict(name=name + '/shape', term=t, text=f'select T0 {{ z := ({tx}) }}',
                                        pos='shape'))
    return out


# ------------------------------------------------------------------ UNION of object types under inheritance
# T0 Named <- T1 Person <- T2 Employee ; T3 Robot extending Named ; T4 Cyborg extending Employee, Robot ; T5 Note
HIER_SCHEMA = {
    'ntypes': 6,
    'children': {0: [1, 3], 1: [2], 2: [4], 3: [4]},
    'descs': {0: [1, 2, 3, 4], 1: [2, 4], 2: [4], 3: [4]},
    'ptrs': [dict(src=0, required=False, multi=False, link=None, exclusive=False),     # p0 on Named
             dict(src=0, required=False, multi=True, link=5, exclusive=False),         # p1: Named -> multi Note
             dict(src=5, required=False, multi=False, link=None, exclusive=False)],    # p2 on Note
}
HIER_DB = {'objs': [(1, 0), (2, 1), (3, 2), (4, 3), (5, 4), (6, 5), (7, 5)],
           'ptrs': {(0, 1): [1], (0, 3): [1], (0, 5): [2], (1, 1): [('o', 6)], (1, 2): [('o', 6), ('o', 7)],
                    (1, 5): [('o', 7)], (2, 6): [0]}}


def union_pairs():
    """`X UNION Y`, `DISTINCT (X UNION Y)`, `count(X UNION Y)`, `(X UNION Y).p1` for every ordered pair of the six
    types (ancestor/descendant at distance 1, 2, 3, siblings sharing the deep subtype T4, unrelated), and
    `(X UNION Y) UNION Z` for every pair and Z in {Employee, Robot, Note}.  -> dicts {name, term, text, nested}"""
    n = HIER_SCHEMA['ntypes']
    named = [0] + HIER_SCHEMA['descs'][0]
    out = []
    R = lambda t: (('root', t), f'(DETACHED T{t})')     # noqa: E731
    for x in range(n):
        for y in range(n):
            (tx, sx), (ty, sy) = R(x), R(y)
            u, su = ('union', tx, ty), f'({sx} union {sy})'
            out.append(dict(name=f'T{x}|T{y}/union', term=u, text=f'select {su}', nested=False))
            out.append(dict(name=f'T{x}|T{y}/distinct', term=('distinct', u), text=f'select (distinct {su})',
                            nested=False))
            out.append(dict(name=f'T{x}|T{y}/count', term=('call', FN_IX['count'], (u,)), text=f'select count({su})',
                            nested=False))
            if x in named and y in named:
                out.append(dict(name=f'T{x}|T{y}/link', term=('path', u, 1), text=f'select {su}.p1', nested=False))
            for z in (2, 3, 5):
                tz, sz = R(z)
                out.append(dict(name=f'T{x}|T{y}|T{z}/union', term=('union', u, tz),
                                text=f'select ({su} union {sz})', nested=True))
    return out


# ------------------------------------------------------------------ nested FOR over a duplicate inner iterator
def nested_for_shapes():
    """Fixed terms (run first): nested FOR with a unique outer iterator, a DUPLICATE inner iterator (`{3, 3}` or a
    path through the non-exclusive property p1, whose values coincide in COMBO_DB) and a body rooted in the
    OUTER variable — every outer element is repeated once per inner element, the result has duplicates and must
    not be classified UNIQUE.  Schema / database: COMBO_SCHEMA / COMBO_DB.  -> dicts {name, term, text}"""
    dup = (('cset', (3, 3)), '{3, 3}')
    prop = (('path', ('root', 0), 1), '(DETACHED T0).p1')
    ints = (('cset', (1, 2)), '{1, 2}')
    objs = (('root', 0), '(DETACHED T0)')
    out = []

    def add(name, outer, inner, body_t, body_x):
        out.append(dict(name=name, term=('for', outer[0], ('for', inner[0], body_t)),
                        text=f'select (for x1 in {outer[1]} union (for x2 in {inner[1]} union {body_x}))'))
    add('ints/dupset/outer-var', ints, dup, ('var', 1), 'x1')
    add('ints/dup-prop/outer-var', ints, prop, ('var', 1), 'x1')
    add('objs/dupset/outer-var', objs, dup, ('var', 1), 'x1')
    add('objs/dupset/outer-excl-prop', objs, dup, ('path', ('var', 1), 0), 'x1.p0')
    add('objs/dup-prop/outer-link', objs, prop, ('path', ('var', 1), 2), 'x1.p2')
    add('ints/uniqueset/outer-var', ints, (('cset', (3, 4)), '{3, 4}'), ('var', 1), 'x1')
    add('ints/dupset/inner-var', ints, dup, ('var', 0), 'x2')
    out.append(dict(name='ints/dupset/three-levels',
                    term=('for', ints[0], ('for', dup[0], ('for', ('cset', (5, 6)), ('var', 2)))),
                    text='select (for x1 in {1, 2} union (for x2 in {3, 3} union (for x3 in {5, 6} union x1)))'))
    out.append(dict(name='ints/dupset/filter-on-outer',
                    term=('for', ints[0], ('for', dup[0], ('filter', ('root', 0),
                                                           ('call', FN_IX['eq'], (('path', ('var', 0), 1), ('var', 2)))))),
                    text='select (for x1 in {1, 2} union (for x2 in {3, 3} union '
                         '(select (DETACHED T0) filter (.p1 = x1))))'))
    return out
