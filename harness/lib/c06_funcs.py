"""C06, level 2: calls of the std functions that carry `preserves_optionality` / `preserves_upper_cardinality`
(the non-standard branch of `inference/cardinality.py::__infer_func_call`).

Generator family: every function of the bootstrapped std schema with either flag (enumerated from the schema, not
hard-coded; one overload per distinct (name, parameter modifiers) whose parameter types have literals here) x every
parameter (SET OF / OPTIONAL / singleton, positional and named-only) x argument class
{empty, one, multi literal set, multi with duplicates} (+ "omitted" for parameters with a default).

Reference semantics (the language's call semantics, evaluated here on literal bags): SET OF arguments are passed
whole; every other argument is iterated element-wise -- a singleton parameter over its elements (no element: no call),
an OPTIONAL parameter over its elements, or once with `{}` if it is empty; the function is applied once per
combination and the results are concatenated.  A raising application (assert_*) makes the query raise: no result, no
oracle.

Oracle on the REAL compiler output (EdgeQL text -> bridge parser -> compile_ast_to_ir): the inferred cardinality
admits the size of the result bag; UNIQUE => no duplicates; EMPTY => empty.
"""
from __future__ import annotations

import itertools


class Raises(Exception):
    pass


# literals per parameter type: class -> (EdgeQL text, bag)
def _lits(tname):
    if tname in ('anytype', 'std::int64', 'std::anyreal', 'std::anyint'):
        return {'empty': ('<int64>{}', []), 'one': ('1', [1]), 'multi': ('{1, 2}', [1, 2]),
                'dup': ('{1, 1}', [1, 1]), 'multi3': ('{3, 1, 2}', [3, 1, 2])}
    if tname == 'std::str':
        return {'empty': ('<str>{}', []), 'one': ("'m'", ['m']), 'multi': ("{'uh', 'oh'}", ['uh', 'oh']),
                'dup': ("{'uh', 'uh'}", ['uh', 'uh']), 'multi3': ("{'a', 'b', 'c'}", ['a', 'b', 'c'])}
    return None


def _assert_exists(input, message=None):
    if not input:
        raise Raises('assert_exists')
    return list(input)


def _assert_distinct(input, message=None):
    if len(set(input)) != len(input):
        raise Raises('assert_distinct')
    return list(input)


def _assert_single(input, message=None):
    if len(input) > 1:
        raise Raises('assert_single')
    return list(input)


# per-application semantics (SET OF arguments: lists; other arguments: a value or None for `{}`)
IMPLS = {
    'std::assert_exists': _assert_exists,
    'std::assert_distinct': _assert_distinct,
    'std::assert_single': _assert_single,
    'std::min': lambda vals: [min(vals)] if vals else [],
    'std::max': lambda vals: [max(vals)] if vals else [],
    'std::enumerate': lambda vals: [(i, v) for i, v in enumerate(vals)],
}


def functions(std):
    """[(shortname, flags, [(pname, typemod, kind, type, has_default)])], one per (name, modifier signature)."""
    from edb.schema import functions as s_func
    seen, out, skipped = set(), [], []
    fs = sorted((f for f in std.get_objects(type=s_func.Function)
                 if f.get_preserves_optionality(std) or f.get_preserves_upper_cardinality(std)),
                key=lambda f: (str(f.get_shortname(std)), str(f.get_name(std))))
    for f in fs:
        name = str(f.get_shortname(std))
        ps = [(p.get_parameter_name(std), p.get_typemod(std).name, p.get_kind(std).name,
               p.get_type(std).get_displayname(std), p.get_default(std) is not None)
              for p in f.get_params(std).objects(std)]
        sig = (name, tuple((p[0], p[1], p[2]) for p in ps))
        if sig in seen:
            continue
        if any(_lits(p[3]) is None for p in ps) or any(p[2] == 'VariadicParam' for p in ps):
            skipped.append((name, [p[3] for p in ps]))
            continue
        seen.add(sig)
        flags = {'po': bool(f.get_preserves_optionality(std)), 'pu': bool(f.get_preserves_upper_cardinality(std)),
                 'ret': f.get_return_typemod(std).name}
        out.append((name, flags, ps))
    # an overload skipped for its types is fine as long as the same modifier signature is covered
    covered = {n for n, _, _ in out}
    uncovered = sorted({n for n, _ in skipped if n not in covered})
    return out, uncovered


def evaluate(name, ps, bags):
    """bags: one list per parameter (omitted parameter = its default `{}` = [])."""
    impl = IMPLS[name]
    axes = []
    for p, bag in zip(ps, bags):
        if p[1] == 'SetOfType':
            axes.append([list(bag)])
        elif p[1] == 'OptionalType':
            axes.append(list(bag) if bag else [None])
        else:
            axes.append(list(bag))
    res = []
    for combo in itertools.product(*axes):
        kw = {p[0]: v for p, v in zip(ps, combo)}
        res.extend(impl(**kw))
    return res


def cases(fns, thorough=False):
    """-> dicts {fn, query, classes, result | None (raises), ps}"""
    out = []
    for name, flags, ps in fns:
        if name not in IMPLS:
            continue
        per = []
        for p in ps:
            cl = ['empty', 'one', 'multi', 'dup'] + (['multi3'] if thorough or p[1] != 'SetOfType' else [])
            if p[4]:
                cl = ['omitted'] + cl
            per.append(cl)
        for combo in itertools.product(*per):
            pos, named, bags = [], [], []
            for p, c in zip(ps, combo):
                if c == 'omitted':
                    bags.append([])
                    continue
                text, bag = _lits(p[3])[c]
                bags.append(bag)
                (named if p[2] == 'NamedOnlyParam' else pos).append(
                    f'{p[0]} := {text}' if p[2] == 'NamedOnlyParam' else text)
            call = f"{name}({', '.join(pos + named)})"
            try:
                res = evaluate(name, ps, bags)
            except Raises:
                res = None
            out.append({'fn': name, 'flags': flags, 'ps': ps, 'classes': list(combo), 'bags': bags,
                        'call': call, 'query': f'select {call}', 'result': res})
    return out


def canon(v):
    return repr(v)


def check_query(env, errors, gamma, has_dups, std, c):
    """-> (real 'CARD MULT' | 'reject' | 'EXC..', [(kind, what)])"""
    try:
        ir = env.compile_to_ir(std, c['query'])
        real = f'{ir.cardinality.name} {ir.multiplicity.name}'
    except errors.QueryError as e:
        return f'reject:{type(e).__name__}', []
    except errors.EdgeDBError as e:
        return f'EXC:{type(e).__name__}', []
    if c['result'] is None:
        return real, []
    card, mult = real.split(' ')
    vals = [canon(v) for v in c['result']]
    bad = []
    if not gamma(card, len(vals)):
        bad.append(('card', f'reported {card} but the result has {len(vals)} element(s)'))
    if mult == 'UNIQUE' and has_dups(vals):
        bad.append(('mult', 'classified UNIQUE but the result contains duplicates'))
    if mult == 'EMPTY' and vals:
        bad.append(('mult', 'classified EMPTY but the result is not empty'))
    return real, bad


def run(ctx, env, errors, gamma, has_dups, only_queries=None):
    std = env.std_schema()
    fns, uncovered = functions(std)
    stats = {'functions': [f'{n}({", ".join(p[0] + ":" + p[1] for p in ps)})' for n, _, ps in fns],
             'queries': 0, 'with_result': 0, 'raising': 0, 'rejected': 0, 'oracle_failures': 0,
             'card_histogram': {}, 'multi_elementwise_arg_cases': 0}
    for n in uncovered:
        ctx.fail(f'card:func-call:uncovered-function:{n}',
                 f'{n} carries preserves_optionality / preserves_upper_cardinality but no overload of it has '
                 'parameter types this generator has literals for', {'function': n}, no_input=True)
    for n, _, _ in fns:
        if n not in IMPLS:
            ctx.fail(f'card:func-call:no-reference-semantics:{n}',
                     f'{n} carries preserves_optionality / preserves_upper_cardinality but the harness has no '
                     'reference semantics for it (lib/c06_funcs.py IMPLS)', {'function': n}, no_input=True)
    cs = cases(fns, thorough=ctx.tier != 'quick')
    by_q = {c['query']: c for c in cs}
    if only_queries is not None:
        cs = [by_q[q] for q in only_queries if q in by_q]
    for c in cs:
        real, bad = check_query(env, errors, gamma, has_dups, std, c)
        stats['queries'] += 1
        if ' ' not in real:
            stats['rejected'] += 1
            continue
        stats['card_histogram'][real] = stats['card_histogram'].get(real, 0) + 1
        if c['result'] is None:
            stats['raising'] += 1
            continue
        stats['with_result'] += 1
        ew_multi = [p[0] for p, b in zip(c['ps'], c['bags']) if p[1] != 'SetOfType' and len(b) > 1]
        if ew_multi:
            stats['multi_elementwise_arg_cases'] += 1
        for kind, what in bad:
            stats['oracle_failures'] += 1
            detail = {'func_call_query': c['query'], 'edgeql': c['query'], 'function': c['fn'], 'flags': c['flags'],
                      'params': [list(p) for p in c['ps']], 'argument_classes': c['classes'], 'compiler': real,
                      'result': [canon(v) for v in c['result']], 'level': 2,
                      'reference': 'element-wise call semantics on literal bags (lib/c06_funcs.py)'}
            key = f"{kind}:func-call:{c['query']}"
            if kind == 'mult' and ew_multi and gamma_upper_multi(real):
                # root cause candidate: multiplicity.__infer_func_call does not look at a multi element-wise
                # (OPTIONAL / singleton) argument although cardinality.__infer_func_call does (force_multi): the
                # CARDINALITY is multi (sound) and the same call with that argument cut to one element passes
                c1 = dict(c, bags=[b[:1] if (p[1] != 'SetOfType') else b for p, b in zip(c['ps'], c['bags'])])
                try:
                    r1 = evaluate(c['fn'], c['ps'], c1['bags'])
                except Raises:
                    r1 = None
                if r1 is not None and not has_dups([canon(v) for v in r1]):
                    key = f"mult:func-call:{c['fn']}:multi-elementwise-arg-ignored"
                    detail['root_cause'] = ('multiplicity.__infer_func_call ignores a multi element-wise argument '
                                            f'({", ".join(ew_multi)}): the call is evaluated once per element')
            ctx.fail(key, f"{c['query']}: {what} (real compiler on EdgeQL text; reference: element-wise call "
                          f"semantics; compiler says {real}, result {detail['result']})", detail)
    # fixed probes of two neighbouring multiplicity rules (ground truth computed here)
    stats['fixed_probes'] = 0
    for key, q, vals in FIXED_PROBES:
        if only_queries is not None and q not in only_queries:
            continue
        c = {'query': q, 'result': vals}
        real, bad = check_query(env, errors, gamma, has_dups, std, c)
        stats['fixed_probes'] += 1
        for kind, what in bad:
            stats['oracle_failures'] += 1
            ctx.fail(key if kind == 'mult' else f'{kind}:func-call:{q}',
                     f'{q}: {what} (real compiler on EdgeQL text; compiler says {real}, result {vals})',
                     {'func_call_query': q, 'edgeql': q, 'compiler': real, 'result': [canon(v) for v in vals],
                      'level': 2})
    return stats


# (key, query, result bag): casts are not injective; ConstantSet elements are compared as literal TEXT
FIXED_PROBES = [
    ('mult:typecast:non-injective-cast-keeps-unique', 'select <int64>{1.1, 1.2}', [round(1.1), round(1.2)]),
    ('mult:const-set:dedup-on-literal-text', 'select {1.0, 1.00}', [float('1.0'), float('1.00')]),
]


def gamma_upper_multi(real):
    return real.split(' ')[0] in ('MANY', 'AT_LEAST_ONE')
