"""In-process rig for C17: a REAL compiler pool talking to REAL worker code.

What is real (imported from /repo, unmodified):
  * ``pool.FixedPool`` / ``pool.SimpleAdaptivePool`` objects: ``compile``,
    ``compile_in_tx``, ``_compute_compile_preargs`` (+ ``sync_worker_state_cb``),
    ``_acquire_worker`` / ``_release_worker``, ``_attach_worker``,
    ``queue.WorkerQueue``; ``pool.Worker`` / ``BaseWorker.call``;
  * one fresh instance of the module ``compiler_pool/worker.py`` per pooled
    worker (``__init_worker__``, ``__sync__``, ``compile``, ``compile_in_tx``,
    ``get_handler`` and the module globals DBS / GLOBAL_SCHEMA / INSTANCE_CONFIG /
    LAST_STATE), driven by the real request loop ``worker_proc.worker`` (run once
    per request over a connection that delivers that request, so the status
    0/1/2 framing is the real one).

What is replaced:
  * the socket transport (``amsg.Server`` / ``amsg.WorkerConnection``) by a
    pair of in-process queues (strict request/response hand-off, hence
    deterministic);
  * ``compiler.new_compiler`` by :class:`Recorder`, which records what it was
    given and returns / raises what the request's *plan* says.

Nothing in /repo or in the shared shim is touched: ``edb.graphql`` (which
needs the uninstalled ``graphql`` package) gets a stub in ``sys.modules`` here,
and ``worker.py`` / ``worker_proc.py`` are executed from source into private
module objects.
"""
from __future__ import annotations

import asyncio
import pickle
import sys
import types

import shim  # noqa: F401  (must come before any edb import)
import immutables

from lib import core

_PKG = 'edb.server.compiler_pool'
_DIR = f'{core.REPO}/edb/server/compiler_pool'


# ------------------------------------------------------------------ payloads
class Payload:
    """What a good bytes token unpickles to."""
    __slots__ = ('cid',)

    def __init__(self, cid):
        self.cid = cid

    def __eq__(self, o):
        return isinstance(o, Payload) and o.cid == self.cid

    def __hash__(self):
        return hash(('Payload', self.cid))

    def __reduce__(self):
        return (Payload, (self.cid,))


class PayloadBoom(Exception):
    pass


class CompileBoom(Exception):
    pass


class StatePickleBoom(Exception):
    pass


class ResultPickleBoom(Exception):
    pass


def _boom(cid):
    raise PayloadBoom(f'payload {cid} cannot be unpickled')


class BoomOnLoad:
    """Pickles fine, raises when unpickled (a sync failure point)."""

    def __init__(self, cid):
        self.cid = cid

    def __reduce__(self):
        return (_boom, (self.cid,))


class UnpicklableUnits:
    def __reduce__(self):
        raise ResultPickleBoom('units cannot be pickled')


class CState:
    """Stand-in for CompilerConnectionState."""

    def __init__(self, tok, poison=False):
        self.tok = tok
        self.root = None
        self.fresh_root = False
        self.poison = poison

    def set_root_user_schema(self, s):
        self.root = s
        self.fresh_root = True

    def __reduce__(self):
        if self.poison:
            raise StatePickleBoom('compiler state cannot be pickled')
        return (_mk_cstate, (self.tok, self.root))


def _mk_cstate(tok, root):
    c = CState(tok)
    c.root = root
    return c


def cid_of(obj):
    """content id of an unpickled part as held by the worker"""
    if obj is None:
        return None
    if isinstance(obj, Payload):
        return obj.cid
    if isinstance(obj, immutables.Map):
        return obj.get('id', 'E')
    return f'?{type(obj).__name__}'


class Recorder:
    """Replaces the compiler object in a worker: records its inputs, obeys
    the plan ``(out, ns)`` that travels as the first compile argument."""

    def __init__(self, log):
        self.log = log

    def compile_serialized_request(self, us, gs, rc, dc, sc, plan, *a, **k):
        out, ns = plan
        self.log.append(('C', cid_of(us), cid_of(gs), cid_of(rc), cid_of(dc), cid_of(sc)))
        if out == 'raise':
            raise CompileBoom('planned compile error')
        units = UnpicklableUnits() if out == 'unp' else 'units'
        if out == 'rux':          # a reply the SERVER cannot unpickle (pickle.loads(data) in BaseWorker.call)
            units = BoomOnLoad('units')
        if out == 'nostate':
            return units, None
        return units, CState(ns, poison=(out == 'spf'))

    def compile_serialized_request_in_tx(self, cstate, txid, plan, *a, **k):
        out, ns = plan
        root = cid_of(cstate.root) if cstate.fresh_root else None
        cstate.fresh_root = False
        self.log.append(('T', cstate.tok, root))
        if out == 'raise':
            raise CompileBoom('planned compile error')
        if out == 'mut':
            # what the real compiler does on e.g. `release savepoint a; select 1`:
            # mutate the state it was given IN PLACE, then raise
            cstate.tok = ns
            raise CompileBoom('planned compile error after mutating the state in place')
        units = UnpicklableUnits() if out == 'unp' else 'units'
        if out == 'rux':
            units = BoomOnLoad('units')
        return units, CState(ns, poison=(out == 'spf'))


# --------------------------------------------------------- module instances
_code_cache: dict[str, types.CodeType] = {}


def _install_graphql_stub():
    if 'edb.graphql' in sys.modules:
        return

    class _S(types.ModuleType):
        def __getattr__(self, n):
            if n.startswith('__'):
                raise AttributeError(n)
            v = type(n, (), {})
            setattr(self, n, v)
            return v

    g = _S('edb.graphql')
    g.__path__ = []
    sys.modules['edb.graphql'] = g
    import edb
    edb.graphql = g


def _fresh_module(fname: str, modname: str) -> types.ModuleType:
    """Execute /repo/edb/server/compiler_pool/<fname> into a new module."""
    path = f'{_DIR}/{fname}'
    code = _code_cache.get(path)
    if code is None:
        code = compile(open(path).read(), path, 'exec')
        _code_cache[path] = code
    m = types.ModuleType(f'{_PKG}.{modname}')
    m.__package__ = _PKG
    m.__file__ = path
    exec(code, m.__dict__)
    return m


class _FakeWorkerConnection:
    """worker-side end of the in-process transport: delivers the one pending
    request of its worker slot, collects the reply."""
    pending: dict = {}      # sockname -> (req_id, raw request)
    replies: dict = {}      # sockname -> (req_id, raw reply)

    def __init__(self, sockname, version):
        self.sockname = sockname

    def iter_request(self):
        item = _FakeWorkerConnection.pending.pop(self.sockname, None)
        if item is not None:
            yield item

    def reply(self, req_id, payload):
        _FakeWorkerConnection.replies[self.sockname] = (req_id, payload)

    def abort(self):
        pass


_wp = None


def _worker_proc():
    """private instance of worker_proc.py whose ``amsg`` is the fake transport"""
    global _wp
    if _wp is None:
        _wp = _fresh_module('worker_proc.py', '_c17_worker_proc')
        _wp.amsg = types.SimpleNamespace(WorkerConnection=_FakeWorkerConnection)
    return _wp


class _ServerConn:
    """server-side end: what ``BaseWorker._con`` needs.  A request is served
    by running the REAL request loop ``worker_proc.worker`` of that worker
    "process" over a connection that delivers exactly this request (strict
    request/response hand-off, no threads)."""

    def __init__(self, rig, idx):
        self.rig = rig
        self.idx = idx
        self.n = 0
        self.key = (id(rig), idx)

    def is_closed(self):
        return False

    async def request(self, msg):
        self.n += 1
        self.rig.wire.append((self.idx, msg))
        _FakeWorkerConnection.pending[self.key] = (self.n, msg)
        _worker_proc().worker(self.key, 0, self.rig.wmods[self.idx].get_handler)
        rid, data = _FakeWorkerConnection.replies.pop(self.key)
        assert rid == self.n
        if getattr(self.rig, 'cancel_next', False):
            # the caller is cancelled while the request is in flight: the worker has
            # processed it, the reply is never looked at
            self.rig.cancel_next = False
            raise asyncio.CancelledError()
        return bytes(data)


class _FakeServer:
    def __init__(self, rig):
        self.rig = rig

    def get_by_pid(self, pid):
        return self.rig.sconns[pid - 1000]

    def kill_outdated_worker(self, version):
        pass


class _DbIndex:
    def __init__(self, args):
        self.args = args

    def get_cached_compiler_args(self):
        return self.args


class Rig:
    """One pool + n workers.  Use inside a running event loop."""

    def __init__(self, loop, kind: str, nworkers: int, init_dbs, init_glob, init_sys):
        _install_graphql_stub()
        from edb.server.compiler_pool import pool as pool_mod, queue as queue_mod, state as state_mod
        self.pool_mod, self.state_mod = pool_mod, state_mod
        self.n = nworkers
        self.wire: list = []          # (worker idx, raw request bytes) in order
        self.cb_log: list = []        # callback-is-not-None per _compute_compile_preargs call
        self.rec_logs = [[] for _ in range(nworkers)]
        rig = self

        base = pool_mod.FixedPool if kind == 'fixed' else pool_mod.SimpleAdaptivePool

        class Pool(base):  # only observes; all logic is inherited
            async def _compute_compile_preargs(self, *a):
                r = await super()._compute_compile_preargs(*a)
                rig.cb_log.append(r[1] is not None)
                return r

        dbs = immutables.Map({
            name: state_mod.PickledDatabaseState(user_schema_pickle=s, reflection_cache=r,
                                                 database_config=c)
            for name, (s, r, c) in init_dbs.items()})
        self.pool = Pool(loop=loop, runstate_dir='/tmp/c17-rig', pool_size=nworkers,
                         backend_runtime_params=None, std_schema='std', refl_schema='refl',
                         schema_class_layout='layout', dbindex=_DbIndex((dbs, init_glob, init_sys)))
        self.pool._server = _FakeServer(self)
        self.pool._running = True
        self.pool._workers_queue = queue_mod.WorkerQueue(loop)
        if kind != 'fixed':
            self.pool._expected_num_workers = nworkers

        # worker "processes": one fresh instance of worker.py each
        self.wmods, self.sconns = [], []
        for i in range(nworkers):
            wm = _fresh_module('worker.py', f'_c17_worker{i}')
            log = self.rec_logs[i]
            wm.compiler = types.SimpleNamespace(
                new_compiler=lambda *a, _log=log, **k: Recorder(_log))
            self.wmods.append(wm)
            self.sconns.append(_ServerConn(self, i))
        self.workers = []

    async def attach(self):
        for i in range(self.n):
            w = await self.pool._attach_worker(1000 + i)   # real: Worker(), _attach → __init_worker__
            self.workers.append(w)
        self.wire.clear()

    def close(self):
        for h in (getattr(self.pool, '_scale_down_handle', None),):
            if h is not None:
                h.cancel()

    # -- steering which worker serves (the others look busy) -----------------
    async def isolate(self, idx):
        """take every worker except ``idx`` out of the queue (via the real
        acquire); returns them for :meth:`give_back`."""
        target = self.workers[idx]
        held = []
        while self.pool._workers_queue.qsize() > 1:
            held.append(await self.pool._acquire_worker(condition=lambda x: x is not target))
        return held

    def give_back(self, held, fronts):
        for w, f in zip(held, fronts):
            self.pool._release_worker(w, put_in_front=f)

    def last_served(self):
        return self.wire[-1][0] if self.wire else None
