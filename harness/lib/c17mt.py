"""C17, remote (three-tier) path: generators, execution on lib/c17rig_mt.RigMT, oracle and
comparison with the Lean model EdbVerif.SyncMT (driver C17MT).  Called from props/c17.py.

Oracle on the real objects (independent of the model), after every request:
  U   what the worker-side compiler received == what the client supplied;
  U2  … == what the compiler server currently holds for that client and database;
  B1  EdgeDB server's belief about the compiler server  ⇒  compiler server holds it;
  B2  compiler server's record "worker w holds version v of client c"  ⇒  w holds exactly
      version v of c, for every database, and nothing else for c.
"""
from __future__ import annotations

import hashlib
import itertools
import json
import pickle
import re

CLIENTS = (1, 2)
NW_MAX, NDBS_MAX = 3, 4


def _hkey(x):
    return hashlib.sha1(json.dumps(x, sort_keys=True, default=str).encode()).hexdigest()[:12]


# ------------------------------------------------------------------ snapshots
def _ps_cid(ps, R):
    def one(b):
        if b is None:
            return None
        try:
            return R.cid_of(pickle.loads(b))
        except Exception:
            return 'BAD'
    return (one(ps.user_schema), one(ps.reflection_cache), one(ps.database_config))


def _cs_content(cs, R):
    def one(b):
        try:
            return R.cid_of(pickle.loads(b))
        except Exception:
            return 'BAD'
    return ({int(k[2:]): _ps_cid(v, R) for k, v in cs.dbs.items()}, one(cs.global_schema),
            one(cs.instance_config))


def snap(rig, toks, R):
    B, S = {}, {}
    for c, rw in rig.rworkers.items():
        B[c] = ({int(k[2:]): (toks.tok_of(v.user_schema_pickle), toks.tok_of(v.reflection_cache),
                              toks.tok_of(v.database_config)) for k, v in rw._dbs.items()},
                toks.tok_of(rw._global_schema_pickle), toks.tok_of(rw._system_config))
    for c in rig.rworkers:
        cs = rig.mpool._clients.get(c)
        S[c] = None if cs is None else _cs_content(cs, R)
    W = []
    for w, wm in zip(rig.workers, rig.wmods):
        cache = []
        for c, v in w._cache.items():
            cur = rig.mpool._clients.get(c)
            cache.append((c, 'cur' if v is cur else ('gone' if cur is None else 'old'), _cs_content(v, R)))
        act = {}
        for c, v in wm.clients.items():
            act[c] = ({int(k[2:]): (R.cid_of(d.user_schema), R.cid_of(d.reflection_cache),
                                    R.cid_of(d.database_config)) for k, d in v.dbs.items()},
                      R.cid_of(v.global_schema), R.cid_of(v.instance_config))
        W.append((cache, list(w._invalidated_clients), act))
    return {'B': B, 'S': S, 'W': W}


_SIDE = r'\{([^}]*)\}'


def _parse_side(s):
    parts = s.split('|')
    dbs = {}
    if parts[0]:
        for e in parts[0].split(';'):
            k, v = e.split(':')
            dbs[int(k)] = tuple(int(x) for x in v.split(','))
    return (dbs, int(parts[1]), int(parts[2]))


def parse_model_state(s, clients, nworkers):
    B, S = {}, {}
    for m in re.finditer(r'B(\d+)' + _SIDE, s):
        if int(m.group(1)) in clients:
            B[int(m.group(1))] = _parse_side(m.group(2))
    for m in re.finditer(r'S(\d+)(?:' + _SIDE + r'|-)', s):
        if int(m.group(1)) in clients:
            S[int(m.group(1))] = None if m.group(2) is None else _parse_side(m.group(2))
    W = []
    for m in re.finditer(r'W(\d+) cache\[([^\]]*)\] inval\[([^\]]*)\] act\[([^\]]*)\]', s):
        if int(m.group(1)) >= nworkers:
            continue
        cache = [(int(e.group(1)), e.group(2), _parse_side(e.group(3)))
                 for e in re.finditer(r'(\d+)=(cur|old|gone)' + _SIDE, m.group(2))]
        inval = [] if m.group(3) == '-' else [int(x) for x in m.group(3).split(',')]
        act = {int(e.group(1)): _parse_side(e.group(2)) for e in re.finditer(r'(\d+)' + _SIDE, m.group(4))}
        W.append((cache, inval, act))
    return {'B': B, 'S': S, 'W': W}


def _to_cid(side, toks):
    if side is None:
        return None
    dbs, g, y = side
    return ({k: tuple(toks.cid(t) for t in v) for k, v in dbs.items()}, toks.cid(g), toks.cid(y))


def model_state_to_cid(ms, toks):
    return {'B': ms['B'],
            'S': {c: _to_cid(v, toks) for c, v in ms['S'].items()},
            'W': [([(c, k, _to_cid(v, toks)) for c, k, v in cache], inval,
                   {c: _to_cid(v, toks) for c, v in act.items()}) for cache, inval, act in ms['W']]}


# ----------------------------------------------------------------- generator
class GenMT:
    def __init__(self, rng, toks, regime, nworkers, ndbs, nclients):
        self.rng, self.toks, self.regime = rng, toks, regime
        self.nw, self.ndbs = nworkers, ndbs
        self.clients = CLIENTS[:nclients]
        self.cur, self.glob, self.sys, self.hist = {}, {}, {}, {}
        self.change_p = rng.choice([0.15, 0.35, 0.6])
        self.free_p = rng.choice([0.0, 0.3, 0.7])

    def _new(self, kind, slot):
        rng, t = self.rng, self.toks
        old = self.hist.setdefault(slot, [])
        cur = old[-1] if old else None
        x = rng.random()
        hazards = self.regime != 'clean'
        ismap = kind in 'RCY'
        if ismap and x < 0.15:
            tok = t.new(kind, 'e')
        elif hazards and x < 0.23:
            tok = t.new(kind, 'b' if ismap else rng.choice('bg'))
        elif cur is not None and x < 0.33 and t.desc[cur][1] == 'n':
            tok = t.new(kind, 'n', cid=t.desc[cur][2])
        elif self.regime != 'noreturn' and len(old) > 1 and x < 0.55:
            tok = rng.choice(old[:-1])
        else:
            tok = t.new(kind, 'n')
        if self.regime == 'noreturn' and tok in old[:-1] and tok != cur:
            tok = t.new(kind, 'n')
        old.append(tok)
        return tok

    def init(self):
        t = self.toks
        out = {}
        for c in self.clients:
            dbs = {}
            for db in range(self.ndbs):
                s, r = t.new('S'), t.new('R')
                cf = t.new('C', 'e' if self.rng.random() < 0.5 else 'n')
                self.cur[(c, db)] = [s, r, cf]
                for k, v in zip('SRC', (s, r, cf)):
                    self.hist[(c, k, db)] = [v]
                if self.rng.random() < 0.6:
                    dbs[str(db)] = [s, r, cf]
            self.glob[c], self.sys[c] = t.new('G'), t.new('Y', 'e' if self.rng.random() < 0.3 else 'n')
            self.hist[(c, 'G')], self.hist[(c, 'Y')] = [self.glob[c]], [self.sys[c]]
            out[str(c)] = {'dbs': dbs, 'glob': self.glob[c], 'sys': self.sys[c]}
        return out

    def next(self):
        rng, t = self.rng, self.toks
        c = rng.choice(self.clients)
        db = rng.randrange(self.ndbs)
        cur = self.cur[(c, db)]
        for i, k in enumerate('SRC'):
            if rng.random() < (0.8 if t.bad(cur[i]) else self.change_p):
                cur[i] = self._new(k, (c, k, db))
        if rng.random() < (0.8 if t.bad(self.glob[c]) else self.change_p / 2):
            self.glob[c] = self._new('G', (c, 'G'))
        if rng.random() < (0.8 if t.bad(self.sys[c]) else self.change_p / 2):
            self.sys[c] = self._new('Y', (c, 'Y'))
        x = rng.random()
        out = 'ok'
        if x < 0.12:
            out = 'raise'
        elif x < 0.20 and self.regime != 'clean':
            out = 'unp'
        elif x < 0.24:
            out = 'spf'
        elif x < 0.27:
            out = 'req'          # the request cannot be unpickled by the next tier
        return {'c': c, 'mode': None if rng.random() < self.free_p else rng.randrange(self.nw),
                'db': db, 's': cur[0], 'r': cur[1], 'g': self.glob[c], 'cf': cur[2], 'y': self.sys[c],
                'out': out, 'fronts': [rng.random() < 0.5 for _ in range(self.nw)]}


class GhostMT:
    """NoReturn on tier 1, per client (mirror of the single-tenant ghost)."""

    def __init__(self, init):
        self.cur, self.ret, self.ok = {}, {}, True
        for c, ini in init.items():
            c = int(c)
            for db, (s, r, cf) in ini['dbs'].items():
                self.cur[(c, 'S', int(db))], self.cur[(c, 'R', int(db))], self.cur[(c, 'C', int(db))] = s, r, cf
            self.cur[(c, 'G')], self.cur[(c, 'Y')] = ini['glob'], ini['sys']

    @staticmethod
    def slots(st):
        c, db = st['c'], st['db']
        return [((c, 'S', db), st['s']), ((c, 'G'), st['g']), ((c, 'R', db), st['r']),
                ((c, 'C', db), st['cf']), ((c, 'Y'), st['y'])]

    def feed(self, st):
        sl = self.slots(st)
        if any(t in self.ret.get(k, ()) for k, t in sl):
            self.ok = False
        for k, t in sl:
            cur = self.cur.get(k)
            if cur is not None and cur != t:
                self.ret.setdefault(k, set()).add(cur)
            self.cur[k] = t


# ----------------------------------------------------------------- execution
class OutcomeMT:
    def __init__(self):
        self.lines, self.real, self.steps, self.fails, self.stats = [], [], [], [], {}
        self.noreturn_ok = False
        self.toks = None


async def run_history(loop, spec, source, c17):
    """c17 = the props.c17 module (Toks, classify_exc, rig_mod)."""
    R = c17.rig_mod()
    from lib import c17rig_mt
    online = isinstance(source, GenMT)
    toks = source.toks if online else c17.Toks(R)
    if not online:
        for t, d in spec['tokens'].items():
            t = int(t)
            if d[1] == 'z':
                toks._z = t
            toks.register(t, d[0], d[1], d[2], toks.make_obj(d[0], d[1], d[2]))
    nw = spec['nworkers']
    clients = {int(c): ({f'db{db}': tuple(toks.obj[x] for x in v) for db, v in ini['dbs'].items()},
                        toks.obj[ini['glob']], toks.obj[ini['sys']])
               for c, ini in spec['init'].items()}
    cids = sorted(clients)
    rig = c17rig_mt.RigMT(loop, nw, spec['cache_size'], clients)
    out = OutcomeMT()
    st = out.stats
    await rig.start()
    state_mod = rig.state_mod
    out.lines.append('J %d' % spec['cache_size'] + ''.join(
        '|%s %d %d' % (c, ini['glob'], ini['sys']) +
        ''.join(' %s:%d,%d,%d' % (db, *v) for db, v in sorted(ini['dbs'].items()))
        for c, ini in sorted(spec['init'].items())))
    prev = snap(rig, toks, R)
    out.real.append({'state': prev})
    ghost = GhostMT(spec['init'])
    stale1 = {}      # (c, slot) -> cause   (tier-1 belief =/=> tier 2)
    stale2 = {}      # (w, c) -> cause      (record =/=> worker)
    steps_iter = None if online else iter(source)
    i = 0
    while True:
        if online:
            if i >= spec.get('len', 0):
                break
            step = source.next()
        else:
            step = next(steps_iter, None)
            if step is None:
                break
            step = dict(step)
        i += 1
        c = step['c']
        held = []
        if step['mode'] is not None:
            held = await rig.isolate(step['mode'])
        n2, n3, ncb = len(rig.wire2), len(rig.wire3), len(rig.cb_log)
        nlog = [len(x) for x in rig.rec_logs]
        cs_before = rig.mpool._clients.get(c)
        cache_before = [w.get_client_schema(c) for w in rig.workers]
        res = 'ok'
        try:
            await rig.pools[c].compile(
                f"db{step['db']}", toks.obj[step['s']], toks.obj[step['g']], toks.obj[step['r']],
                toks.obj[step['cf']], toks.obj[step['y']],
                R.BoomOnLoad('compile-arg') if step['out'] == 'req' else (step['out'], 0))
        except Exception as e:   # noqa: BLE001
            res = c17.classify_exc(e, state_mod, R)
        rig.give_back(held, step['fronts'])
        if len(rig.wire2) != n2 + 1 or len(rig.wire3) > n3 + 1:
            out.fails.append((f'rig-mt:{_hkey(out.steps)}', 'request did not travel as expected', {}))
            break
        try:
            _meth, args2 = pickle.loads(rig.wire2[-1][1][32:])
            sent = tuple(c17.wire_cid(a, R) for a in args2[1:6])
        except R.PayloadBoom:
            sent = None          # (the whole message is unreadable, for us as for the compiler server)
        kind, inval, w, wdiff = None, [], None, None
        if len(rig.wire3) == n3 + 1:
            w, raw3 = rig.wire3[-1]
            _m3, a3 = pickle.loads(raw3)
            inval = list(a3[2])
            if a3[1] is not None:
                wdiff = ({int(k[2:]): tuple(c17.wire_cid(b, R) for b in v) for k, v in a3[1].dbs.items()},
                         c17.wire_cid(a3[1].global_schema, R), c17.wire_cid(a3[1].instance_config, R),
                         sorted(int(k[2:]) for k in a3[1].dropped_dbs))
            kind = 'insync' if a3[1] is None else ('full' if cache_before[w] is None else 'diff')
        step['w'] = w if w is not None else (step['mode'] or 0)
        used = None
        if w is not None and len(rig.rec_logs[w]) > nlog[w]:
            used = tuple(rig.rec_logs[w][nlog[w]][1:])
        now = snap(rig, toks, R)
        updated = rig.mpool._clients.get(c) is not cs_before
        out.lines.append('Q %d %d %d %d %d %d %d %d %s' % (
            c, step['w'], step['db'], step['s'], step['r'], step['g'], step['cf'], step['y'], step['out']))
        out.real.append({'sent': sent, 'cb': rig.cb_log[ncb] if len(rig.cb_log) > ncb else None,
                         'upd': updated, 'kind': kind, 'diff': wdiff, 'inval': inval, 'res': res, 'used': used,
                         'state': now})
        out.steps.append(step)
        ghost_ok_before = ghost.ok
        ghost.feed(step)
        st['Q:' + res.split(':')[0]] = st.get('Q:' + res.split(':')[0], 0) + 1
        if kind:
            st['kind:' + kind] = st.get('kind:' + kind, 0) + 1
        if inval:
            st['evictions'] = st.get('evictions', 0) + len(inval)
        if kind == 'diff' and w is not None:
            nd = len(pickle.loads(rig.wire3[-1][1])[1][1].dbs)
            st[f'diff-dbs:{min(nd, 3)}'] = st.get(f'diff-dbs:{min(nd, 3)}', 0) + 1

        # ------------------------------------------------------------ ORACLE
        def fail(key, what, extra):
            out.fails.append((key, what, dict(extra, step_index=len(out.steps) - 1)))

        supplied = (toks.cid(step['s']), toks.cid(step['g']), toks.cid(step['r']),
                    toks.cid(step['cf']), toks.cid(step['y']))
        if used is not None:
            # U2: compiled against what the compiler server holds now
            S = now['S'][c]
            cur_tuple = None
            if S is not None and step['db'] in S[0]:
                d3 = S[0][step['db']]
                cur_tuple = (d3[0], S[1], d3[1], d3[2], S[2])
            if cur_tuple != used:
                st['U2-violations'] = st.get('U2-violations', 0) + 1
                fail(f'mt-used-not-current:{_hkey(out.steps)}',
                     'remote path: the worker compiled against state other than the compiler '
                     'server\'s current state of that client and database',
                     {'used': used, 'current': cur_tuple, 'worker': w})
            if used != supplied:
                st['U-violations'] = st.get('U-violations', 0) + 1
                slots = GhostMT.slots(step)
                causes = {stale1.get((c, k[1:])) for (k, _t), u, s_ in zip(slots, used, supplied) if u != s_}
                if 'unprocessed-request' in causes and causes <= {'remote-failed-sync', 'unprocessed-request'}:
                    fail('unprocessed-request-wrong-state-used',
                         'remote path: the compiler server could not unpickle an earlier request, the client '
                         'acknowledged it anyway; the part is elided now and the worker compiles against the '
                         'old one', {'used': used, 'supplied': supplied})
                elif causes <= {'remote-failed-sync'} and not (ghost.ok):
                    fail('remote-failed-sync-wrong-state-used',
                         'remote path: after a worker-side FailedStateSync the compiler server is ahead of '
                         'the EdgeDB server\'s belief; a stale identity supplied again is elided and the '
                         'worker compiles against the newer part', {'used': used, 'supplied': supplied})
                else:
                    tag = 'under-noreturn' if ghost.ok else 'unknown-cause'
                    fail(f'mt-used-violated:{tag}:{_hkey(out.steps)}',
                         'remote path: worker compiled against state other than the supplied one',
                         {'used': used, 'supplied': supplied})
        # B1: tier-1 belief ⇒ tier 2
        for cc in cids:
            bdbs, bg, by = now['B'][cc]
            pb = prev['B'][cc]
            S = now['S'][cc] or ({}, None, None)
            slots = {('G',): (bg, S[1], pb[1]), ('Y',): (by, S[2], pb[2])}
            for db, (s_, r_, c_) in bdbs.items():
                a3 = S[0].get(db, (None, None, None))
                p3 = pb[0].get(db, (None, None, None))
                for k, bt, ac, pt in (('S', s_, a3[0], p3[0]), ('R', r_, a3[1], p3[1]), ('C', c_, a3[2], p3[2])):
                    slots[(k, db)] = (bt, ac, pt)
            for sl, (bt, ac, pt) in slots.items():
                ok = bt != 'unk' and (toks.cid(bt) == ac or (toks.bad(bt) and ac == 'BAD'))
                if ok:
                    stale1.pop((cc, sl), None)
                    continue
                if (cc, sl) in stale1:
                    if cc == c and bt != pt and step['out'] == 'req' and res == 'unpickleErr':
                        stale1[(cc, sl)] = 'unprocessed-request'
                    continue
                lag = bt == pt
                cause = 'remote-failed-sync' if (cc == c and lag and res == 'syncFail') else 'unknown'
                if cc == c and not lag and step['out'] == 'req' and res == 'unpickleErr':
                    cause = 'unprocessed-request'
                stale1[(cc, sl)] = cause
                st['B1-violations'] = st.get('B1-violations', 0) + 1
                if cause == 'unprocessed-request':
                    fail('unprocessed-request-belief-ahead',
                         'remote path: handle_client_call could not unpickle the request (nothing stored), '
                         'replied status 1 with that ordinary exception, and the client ran its '
                         'acknowledgement callback', {'client': cc, 'slot': sl, 'belief': bt, 'actual': ac})
                elif cause == 'unknown':
                    fail(f'mt-belief-violated:{"lag" if lag else "ahead"}:{_hkey(out.steps)}',
                         'remote path: the EdgeDB server believes the compiler server holds state it '
                         'does not hold', {'client': cc, 'slot': sl, 'belief': bt, 'actual': ac})
                else:
                    fail('remote-failed-sync-stale-belief',
                         'remote path: a request that ends in a worker-side FailedStateSync has already '
                         'updated the compiler server, but the EdgeDB server does not acknowledge: its '
                         'belief lags', {'client': cc, 'slot': sl, 'belief': bt, 'actual': ac})
        # B2: record ⇒ worker holds exactly that version
        for j, (cache, _inv, act) in enumerate(now['W']):
            pcache = {cc: v for cc, _k, v in prev['W'][j][0]}
            for cc, _k, content in cache:
                if act.get(cc) == content:
                    stale2.pop((j, cc), None)
                    continue
                if (j, cc) in stale2:
                    continue
                lag = pcache.get(cc) == content
                cause = 'unserializable-result' if (j == w and cc == c and lag and res == 'serErr') else 'unknown'
                stale2[(j, cc)] = cause
                st['B2-violations'] = st.get('B2-violations', 0) + 1
                if cause == 'unknown':
                    fail(f'mt-record-violated:{"lag" if lag else "ahead"}:{_hkey(out.steps)}',
                         'remote path: the compiler server records a client-schema version for a worker '
                         'that the worker does not hold', {'worker': j, 'client': cc,
                                                           'recorded': content, 'actual': act.get(cc)})
                else:
                    fail('unserializable-result-stale-record',
                         'remote path: status 2 from the worker: it has synced but the compiler server '
                         'keeps the old version in its record', {'worker': j, 'client': cc})
            for key in [k for k in stale2 if k[0] == j and k[1] not in {cc for cc, _k, _v in cache}]:
                stale2.pop(key)
        prev = now
    out.noreturn_ok = ghost.ok
    out.toks = toks
    return out


def local_witness():
    """MultiTenantPool, one worker, cache size 1: client 1 is evicted for client 2, that call
    ends with status 2 (no callback, no flush); the next request of client 1 changes
    everything but the schema: the worker takes the partial message as FULL SYNC with
    user_schema = None and compiles against it."""
    tokens = {'8': ['S', 'n', 'S1'], '12': ['S', 'n', 'S2'], '16': ['R', 'n', 'R1'], '20': ['C', 'n', 'C1'],
              '28': ['G', 'n', 'G1'], '36': ['Y', 'n', 'Y1'], '60': ['R', 'n', 'R2'], '64': ['C', 'n', 'C2'],
              '68': ['G', 'n', 'G2'], '72': ['Y', 'n', 'Y2']}
    spec = {'nworkers': 1, 'cache_size': 1, 'tokens': tokens, 'regime': 'witness', 'lmt': True}

    def L(c, s, r, g, cf, y, out='ok'):
        return {'c': c, 'mode': 0, 'db': 0, 's': s, 'r': r, 'g': g, 'cf': cf, 'y': y, 'out': out,
                'fronts': [True]}
    return spec, [L(1, 8, 16, 28, 20, 36), L(2, 12, 16, 28, 20, 36, 'unp'), L(1, 8, 60, 68, 64, 72)], \
        set()      # repaired by a325b39 (was: mt-pool-eviction-not-flushed-stale-belief / -wrong-state-used)


def local_witness_drop():
    """MultiTenantPool.drop_tenant(X), then X compiles again on the same worker: the tenant is only
    MARKED invalidated, get_tenant_schema() still returns it, the pool sends "nothing changed" plus
    the invalidation list, the worker deletes X and then fails (`assert client_schema is not None`);
    the callback does not run, the list is never flushed: every request of X on that worker fails
    (until a request of another client succeeds there)."""
    tokens = {'8': ['S', 'n', 'S1'], '16': ['R', 'n', 'R1'], '20': ['C', 'n', 'C1'],
              '28': ['G', 'n', 'G1'], '36': ['Y', 'n', 'Y1']}
    spec = {'nworkers': 1, 'cache_size': 2, 'tokens': tokens, 'regime': 'witness', 'lmt': True}
    q = {'c': 1, 'mode': 0, 'db': 0, 's': 8, 'r': 16, 'g': 28, 'cf': 20, 'y': 36, 'out': 'ok', 'fronts': [True]}
    return spec, [dict(q), {'op': 'drop', 'c': 1}, dict(q), dict(q)], \
        set()      # repaired by a325b39 (was: mt-pool-eviction-not-flushed-stale-belief)


# -------------------------------------------------------------- fixed streams
def witness_specs():
    """concrete histories of Props/C17.lean (remote path), same token numbers.
    tokens: 8 S1, 12 S2, 16 R1, 20 C1, 28 G1, 34 Gbad, 36 Y1, 44 S3, 48 S4, 52 G2."""
    tokens = {'8': ['S', 'n', 'S1'], '12': ['S', 'n', 'S2'], '16': ['R', 'n', 'R1'],
              '20': ['C', 'n', 'C1'], '28': ['G', 'n', 'G1'], '34': ['G', 'b', 'BAD'],
              '36': ['Y', 'n', 'Y1'], '44': ['S', 'n', 'S3'], '48': ['S', 'n', 'S4'], '52': ['G', 'n', 'G2']}
    init = {'1': {'dbs': {'0': [8, 16, 20], '1': [12, 16, 20]}, 'glob': 28, 'sys': 36}}
    base = {'nworkers': 2, 'cache_size': 2, 'init': init, 'tokens': tokens, 'regime': 'witness'}

    def Q(w, db, s, g, out='ok'):
        return {'c': 1, 'mode': w, 'db': db, 's': s, 'r': 16, 'g': g, 'cf': 20, 'y': 36, 'out': out,
                'fronts': [True, True]}
    return [
        # one diff with two databases (what the seeded edit of DIFF SYNC UPDATE breaks)
        ('two_dbs_one_diff', dict(base),
         [Q(0, 0, 8, 28), Q(1, 0, 44, 28), Q(1, 1, 48, 28), Q(0, 0, 44, 28), Q(0, 1, 48, 28)], set()),
        ('status2_record', dict(base), [Q(0, 0, 8, 28), Q(0, 0, 44, 28, 'unp')],
         {'unserializable-result-stale-record'}),
        ('lost_request', dict(base), [Q(0, 0, 44, 28, 'req'), Q(0, 0, 44, 28)], set()),     # repaired: 3499a3b
        ('failed_sync', dict(base), [Q(0, 0, 44, 34), Q(0, 0, 8, 52)],
         {'remote-failed-sync-stale-belief', 'remote-failed-sync-wrong-state-used'}),
    ]


def exhaustive(maxlen):
    """all words over: worker 0/1 x database 0/1 x (same | new schema), 1 client."""
    tokens = {'8': ['S', 'n', 'S1'], '12': ['S', 'n', 'S2'], '16': ['R', 'n', 'R1'],
              '20': ['C', 'n', 'C1'], '28': ['G', 'n', 'G1'], '36': ['Y', 'n', 'Y1']}
    for i in range(maxlen):
        tokens[str(100 + 4 * i)] = ['S', 'n', f'N{i}']
    init = {'1': {'dbs': {'0': [8, 16, 20], '1': [12, 16, 20]}, 'glob': 28, 'sys': 36}}
    spec = {'nworkers': 2, 'cache_size': 2, 'init': init, 'tokens': tokens, 'regime': 'exhaustive'}
    alpha = [(w, db, new) for w in (0, 1) for db in (0, 1) for new in (False, True)]
    for L in range(1, maxlen + 1):
        for word in itertools.product(alpha, repeat=L):
            cur = {0: 8, 1: 12}
            steps = []
            for i, (w, db, new) in enumerate(word):
                if new:
                    cur[db] = 100 + 4 * i
                steps.append({'c': 1, 'mode': w, 'db': db, 's': cur[db], 'r': 16, 'g': 28, 'cf': 20,
                              'y': 36, 'out': 'ok', 'fronts': [True, True]})
            yield dict(spec), steps


# ------------------------------------------------------------------- compare
def compare(ctx, spec, out, model_lines, stats):
    toks = out.toks
    clients = sorted(int(c) for c in spec['init'])
    nw = spec['nworkers']
    for idx, (line, robs, mline) in enumerate(zip(out.lines, out.real, model_lines)):
        diffs = []
        if mline == 'bad-op':
            diffs.append('driver rejected the line')
        else:
            head, _, tail = mline.partition(' | ')
            try:
                ms = model_state_to_cid(parse_model_state(tail, clients, nw), toks)
            except Exception as e:   # noqa: BLE001
                diffs.append(f'unparsable model state: {e}')
                ms = None
            if ms is not None:
                rs = robs['state']
                for k in ('B', 'S'):
                    for c in clients:
                        if ms[k].get(c) != rs[k].get(c):
                            diffs.append(f'{k}{c}: model {ms[k].get(c)} real {rs[k].get(c)}')
                for j in range(nw):
                    if j >= len(ms['W']) or ms['W'][j] != rs['W'][j]:
                        diffs.append(f'W{j}: model {ms["W"][j] if j < len(ms["W"]) else None} real {rs["W"][j]}')
            if line.startswith('Q'):
                f = dict(x.split('=', 1) for x in head.split(' ') if '=' in x)
                msent = tuple(None if x == '-' else ('BAD' if toks.bad(int(x)) else toks.cid(int(x)))
                              for x in f['sent'].split(','))
                if robs['sent'] is not None and msent != robs['sent']:
                    diffs.append(f'sent: model {msent} real {robs["sent"]}')
                if robs['cb'] is not None and (f['cb'] == '1') != robs['cb']:
                    diffs.append(f'callback: model {f["cb"]} real {robs["cb"]}')
                if (f['upd'] == '1') != robs['upd']:
                    diffs.append(f'updated: model {f["upd"]} real {robs["upd"]}')
                if (None if f['kind'] == '-' else f['kind']) != robs['kind']:
                    diffs.append(f'kind: model {f["kind"]} real {robs["kind"]}')
                def wc(x):
                    return None if x == '-' else ('BAD' if toks.bad(int(x)) else toks.cid(int(x)))
                if f['diff'] == '-':
                    mdiff = None
                else:
                    dbs_s, g_, y_, dr_ = f['diff'].split('/')
                    mdiff = ({int(e.split(':')[0]): tuple(wc(x) for x in e.split(':')[1].split(','))
                              for e in dbs_s.split(';') if e}, wc(g_), wc(y_),
                             [] if dr_ == '-' else sorted(int(x) for x in dr_.split(',')))
                if mdiff != robs['diff']:
                    diffs.append(f'diff sent to the worker: model {mdiff} real {robs["diff"]}')
                minv = [] if f['inval'] == '-' else [int(x) for x in f['inval'].split(',')]
                if minv != robs['inval']:
                    diffs.append(f'invalidation: model {minv} real {robs["inval"]}')
                mused = None if f['used'] == '-' else tuple(toks.cid(int(x)) for x in f['used'].split(','))
                if mused != robs['used']:
                    diffs.append(f'used: model {mused} real {robs["used"]}')
                if f['res'] != robs['res']:
                    diffs.append(f'res: model {f["res"]} real {robs["res"]}')
        if diffs:
            stats['mt-disagreements'] = stats.get('mt-disagreements', 0) + 1
            if stats.get('mt-corr-recorded', 0) < 10:
                stats['mt-corr-recorded'] = stats.get('mt-corr-recorded', 0) + 1
                hist = {'mt': True, 'spec': dict(spec, tokens={str(t): d for t, d in toks.desc.items()}),
                        'steps': out.steps[:idx]}
                ctx.fail(f'corr-mt:{_hkey(hist)}', 'remote path: model and implementation disagree',
                         {'history': hist, 'line': line, 'model': mline, 'diffs': diffs[:6],
                          'stream': 'real RemotePool+MultiSchemaPool+multitenant_worker rig vs '
                                    'EdbVerif.SyncMT.stepMT'}, no_input=True)
            return 1
    return 0


# ------------------------------------------------------ concurrency scenario (remote path)
async def sync_lock_scenario(loop, c17):
    """Two defects of RemotePool under CONCURRENT requests of one client (the model and all other
    streams are sequential).  One worker, schema identities S1 (initial), S2, S3.

      A: compile(S2)   takes the sync lock, is sent; its reply is held back (slow worker)
      B: compile(S1)   an older snapshot: nothing to send, so no lock is taken; the compiler server
                       has already stored S2 -> B is compiled against S2               [defect 5]
                       when B finishes, `_release_worker` releases the sync lock although A holds it
                                                                                       [defect 4]
      C: compile(S3)   can therefore take the lock while A is still in flight; acknowledged: belief S3
      (A's reply arrives) A's callback now overwrites the belief with S2; the compiler server holds S3
      D: compile(S2)   elided -> compiled against S3

    Returns the list of (key, what, detail) the oracle found."""
    import asyncio
    import immutables
    R = c17.rig_mod()
    from lib import c17rig_mt

    def mk(x):
        return pickle.dumps(R.Payload(x))
    S1, S2, S3, G1 = mk('S1'), mk('S2'), mk('S3'), mk('G1')
    R1, C1, Y1 = immutables.Map({'id': 'R1'}), immutables.Map({'id': 'C1'}), immutables.Map({'id': 'Y1'})
    rig = c17rig_mt.RigMT(loop, 1, 2, {1: ({'db0': (S1, R1, C1)}, G1, Y1)})
    await rig.start()
    pool, proto, log = rig.pools[1], rig.protos[1], rig.rec_logs[0]

    async def settle():
        for _ in range(30):
            await asyncio.sleep(0)

    def req(s):
        return pool.compile('db0', s, G1, R1, C1, Y1, ('ok', 0))

    fails = []
    proto.hold_next = 1
    ta = loop.create_task(req(S2))
    await settle()
    in_flight = (not ta.done()) and len(proto.held) == 1
    lock_held_by_a = pool._sync_lock.locked()
    n = len(log)
    tb = loop.create_task(req(S1))                    # B
    await settle()
    b_waited = not tb.done()          # (a pool that makes B wait for the in-flight sync is fine)
    if b_waited:
        proto.release_held()
        await ta
    await tb
    used_b = log[n][1] if len(log) > n else None
    lock_after_b = pool._sync_lock.locked() and not ta.done()
    tc = loop.create_task(req(S3))                    # C
    await settle()
    c_overtook = tc.done() and not ta.done()
    proto.release_held()
    await ta
    if not tc.done():
        await tc
    n = len(log)
    await req(S2)                                     # D
    used_d = log[n][1] if len(log) > n else None
    belief = R.cid_of(pickle.loads(rig.rworkers[1]._dbs['db0'].user_schema_pickle))
    server = R.cid_of(pickle.loads(rig.mpool._clients[1].dbs['db0'].user_schema))
    detail = {'in_flight': in_flight, 'lock_held_by_A': lock_held_by_a, 'lock_still_held_after_B': lock_after_b,
              'B_waited_for_A': b_waited, 'C_completed_while_A_in_flight': c_overtook, 'B_supplied': 'S1', 'B_used': used_b,
              'D_supplied': 'S2', 'D_used': used_d, 'belief_after': belief, 'compiler_server_after': server,
              'history': {'scenario': 'sync_lock'}}
    if not in_flight:
        fails.append(('rig-scenario:sync_lock', 'scenario did not get request A in flight', detail))
        return fails, detail
    if used_b != 'S1':
        fails.append(('remote-concurrent-request-compiled-against-newer-state',
                      'remote path, concurrent requests of one client: a request carrying an older snapshot, '
                      'with nothing to send, is compiled against the state another in-flight request has '
                      'already stored on the compiler server (it does not wait for the sync lock)', detail))
    if lock_held_by_a and not lock_after_b and not b_waited:
        if used_d != 'S2' or belief != server:
            fails.append(('remote-sync-lock-released-by-other-request',
                          'RemotePool._release_worker releases the sync lock whenever it is locked, also when a '
                          'different request holds it: a third request synced while the first was in flight, '
                          'the acknowledgements were applied out of order, the belief is wrong and a later '
                          'request is compiled against another schema', detail))
    elif used_d != 'S2':
        fails.append((f'mt-scenario-used-violated:{_hkey(detail)}', 'scenario: D compiled against another schema',
                      detail))
    return fails, detail


# ------------------------------------------------ in-process MultiTenantPool (oracle only)
async def run_local_history(loop, spec, source, c17):
    """The same request generator on the in-process ``MultiTenantPool``.  No Lean model:
    oracle U (compiler input == supplied) and B ("the pool's tenant schema for a worker says
    x for a slot ⇒ the worker holds x; the worker has the client") after every request."""
    R = c17.rig_mod()
    from lib import c17rig_mt
    online = isinstance(source, GenMT)
    toks = source.toks if online else c17.Toks(R)
    if not online:
        for t, d in spec['tokens'].items():
            toks.register(int(t), d[0], d[1], d[2], toks.make_obj(d[0], d[1], d[2]))
    nw = spec['nworkers']
    rig = c17rig_mt.RigLocalMT(loop, nw, spec['cache_size'])
    out = OutcomeMT()
    st = out.stats
    await rig.start()
    state_mod = rig.state_mod
    stale = {}

    def snap_local():
        res = []
        for w, wm in zip(rig.workers, rig.wmods):
            bel = {}
            for cid, ts in w._cache.items():
                bel[cid] = ({int(k[2:]): (toks.tok_of(v.user_schema_pickle), toks.tok_of(v.reflection_cache),
                                          toks.tok_of(v.database_config)) for k, v in ts.dbs.items()},
                            toks.tok_of(ts.global_schema_pickle), toks.tok_of(ts.system_config))
            act = {}
            for cid, v in wm.clients.items():
                act[cid] = ({int(k[2:]): (R.cid_of(d.user_schema), R.cid_of(d.reflection_cache),
                                          R.cid_of(d.database_config)) for k, d in v.dbs.items()},
                            R.cid_of(v.global_schema), R.cid_of(v.instance_config))
            res.append((bel, list(w._invalidated_clients), act))
        return res

    prev = snap_local()
    steps_src = None if online else list(source)
    for i in range(spec.get('len', 0) if online else len(steps_src)):
        step = source.next() if online else dict(steps_src[i])
        if online and spec.get('drops') and source.rng.random() < 0.06:
            step = {'op': 'drop', 'c': step['c']}
        if step.get('op') == 'drop':
            # MultiTenantPool.drop_tenant(): every worker marks the client as invalidated
            rig.pool.drop_tenant(step['c'])
            out.steps.append(step)
            st['L:drop_tenant'] = st.get('L:drop_tenant', 0) + 1
            prev = snap_local()
            continue
        c = step['c']
        held = []
        if step['mode'] is not None:
            held = await rig.isolate(step['mode'])
        n3 = len(rig.wire3)
        nlog = [len(x) for x in rig.rec_logs]
        res = 'ok'
        try:
            await rig.pool.compile(
                f"db{step['db']}", toks.obj[step['s']], toks.obj[step['g']], toks.obj[step['r']],
                toks.obj[step['cf']], toks.obj[step['y']],
                R.BoomOnLoad('compile-arg') if step['out'] == 'req' else (step['out'], 0), client_id=c)
        except Exception as e:   # noqa: BLE001
            res = c17.classify_exc(e, state_mod, R)
        rig.give_back(held, step['fronts'])
        if len(rig.wire3) != n3 + 1:
            out.fails.append((f'rig-lmt:{_hkey(out.steps)}', 'request did not reach exactly one worker', {}))
            break
        w = rig.wire3[-1][0]
        step['w'] = w
        used = tuple(rig.rec_logs[w][nlog[w]][1:]) if len(rig.rec_logs[w]) > nlog[w] else None
        out.steps.append(step)
        st['L:' + res.split(':')[0]] = st.get('L:' + res.split(':')[0], 0) + 1
        now = snap_local()

        def fail(key, what, extra):
            out.fails.append((key, what, dict(extra, step_index=len(out.steps) - 1)))

        supplied = (toks.cid(step['s']), toks.cid(step['g']), toks.cid(step['r']),
                    toks.cid(step['cf']), toks.cid(step['y']))
        if used is not None and used != supplied:
            causes = {stale.get((w, c, sl)) for sl, u_, s_ in zip(
                (('S', step['db']), ('G',), ('R', step['db']), ('C', step['db']), ('Y',)), used, supplied)
                if u_ != s_}
            if c in prev[w][1]:
                # the served client was in this worker's pending invalidation list when the call was made:
                # the worker deleted it and rebuilt it from a partial message
                causes = (causes - {None}) | {'eviction-not-flushed'}
            st['LU-violations'] = st.get('LU-violations', 0) + 1
            if 'unprocessed-request' in causes and \
                    causes <= {'unserializable-result', 'unprocessed-request', 'eviction-not-flushed'}:
                fail('unprocessed-request-wrong-state-used',
                     'MultiTenantPool: an earlier request could not be unpickled by the worker but was '
                     'acknowledged', {'used': used, 'supplied': supplied})
            elif causes <= {'unserializable-result'}:
                fail('unserializable-result-wrong-state-used',
                     'MultiTenantPool: stale belief after status 2, stale identity supplied again',
                     {'used': used, 'supplied': supplied})
            elif causes <= {'eviction-not-flushed', 'unserializable-result'}:
                fail('mt-pool-eviction-not-flushed-wrong-state-used',
                     'MultiTenantPool: the pool still records a client the worker has already deleted '
                     '(eviction sent, call failed, invalidation never flushed); a later partial sync is '
                     'taken as FULL SYNC by the worker and it compiles with missing / None parts',
                     {'used': used, 'supplied': supplied})
            else:
                fail(f'lmt-used-violated:{_hkey(out.steps)}',
                     'MultiTenantPool: worker compiled against state other than the supplied one',
                     {'used': used, 'supplied': supplied})
        for j, (bel, _inv, act) in enumerate(now):
            pbel = prev[j][0]
            for cid, (bdbs, bg, by) in bel.items():
                a = act.get(cid)
                slots = {('G',): (bg, a[1] if a else None), ('Y',): (by, a[2] if a else None)}
                for db, (s_, r_, c_) in bdbs.items():
                    a3 = (a[0].get(db) if a else None) or (None, None, None)
                    slots[('S', db)], slots[('R', db)], slots[('C', db)] = (s_, a3[0]), (r_, a3[1]), (c_, a3[2])
                for sl, (bt, ac) in slots.items():
                    if bt != 'unk' and toks.cid(bt) == ac:
                        stale.pop((j, cid, sl), None)
                        continue
                    if (j, cid, sl) in stale:
                        if j == w and cid == c and step.get('out') == 'req' and res == 'unpickleErr':
                            stale[(j, cid, sl)] = 'unprocessed-request'
                        continue
                    pb = pbel.get(cid)
                    pt = None
                    if pb is not None:
                        pt = pb[1] if sl == ('G',) else pb[2] if sl == ('Y',) else \
                            (pb[0].get(sl[1]) or (None, None, None))['SRC'.index(sl[0])]
                    lag = bt == pt
                    cause = 'unserializable-result' if (j == w and cid == c and lag and res == 'serErr') else 'unknown'
                    if j == w and cid == c and not lag and step['out'] == 'req' and res == 'unpickleErr':
                        cause = 'unprocessed-request'
                    if cause == 'unknown' and lag and (
                            (a is None and cid in _inv) or
                            any(stale.get((j, cid, s2)) == 'eviction-not-flushed' for s2 in slots)):
                        # the worker was told to delete this client, the call then failed and the pool
                        # never flushed the invalidation: it keeps the record (or half-restores it)
                        cause = 'eviction-not-flushed'
                    stale[(j, cid, sl)] = cause
                    st['LB-violations'] = st.get('LB-violations', 0) + 1
                    if cause == 'unprocessed-request':
                        fail('unprocessed-request-belief-ahead',
                             'MultiTenantPool: the worker could not unpickle the request, the pool acknowledged '
                             'it anyway', {'worker': j, 'client': cid, 'slot': sl})
                    elif cause == 'eviction-not-flushed':
                        fail('mt-pool-eviction-not-flushed-stale-belief',
                             'MultiTenantPool: maybe_invalidate_last() marked a client, the invalidation '
                             'went to the worker with the call, the call failed (FailedStateSync / status 2) '
                             'so flush_invalidation() never ran: the pool keeps recording a client the worker '
                             'has deleted', {'worker': j, 'client': cid, 'slot': sl, 'res': res})
                    elif cause == 'unknown':
                        fail(f'lmt-belief-violated:{"lag" if lag else "ahead"}:{_hkey(out.steps)}',
                             'MultiTenantPool: the pool believes a worker holds state it does not hold',
                             {'worker': j, 'client': cid, 'slot': sl, 'belief': bt, 'actual': ac,
                              'worker_has_client': a is not None, 'res': res})
                    else:
                        fail('unserializable-result-stale-belief',
                             'MultiTenantPool: status 2: no acknowledgement although the worker synced',
                             {'worker': j, 'client': cid, 'slot': sl})
            for key in [k for k in stale if k[0] == j and k[1] not in bel]:
                stale.pop(key)
        prev = now
    out.toks = toks
    return out
