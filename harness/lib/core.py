"""Shared machinery for all property checks.

A check is a Python module ``props/cXX.py`` with ``run(ctx)``.  ``ctx`` is a
:class:`Ctx`; it knows how to

* (re)build the Lean library and audit the property theorems (axioms, sorry),
* pipe operation lines through a Lean line-protocol driver,
* record disagreements / oracle failures, match them against
  ``known_findings.json``, write replay files and print the VIOLATION /
  KNOWN-FINDING lines,
* write ``evidence/<id>.json`` in the shape EVIDENCE.schema.json wants.

Exit codes: 0 property held on everything explored; 1 violation (line
printed); 2 infrastructure problem (never a VIOLATION line).
"""
from __future__ import annotations

import hashlib
import json
import os
import random
import re
import subprocess
import sys
import tempfile
import time
from typing import Any, Callable, Iterable, Optional, Sequence

VERIF = os.path.dirname(os.path.dirname(os.path.dirname(os.path.abspath(__file__))))
LEAN_DIR = os.path.join(VERIF, 'lean')
REPO = os.environ.get('EDB_VERIF_REPO', '/repo')

ALLOWED_AXIOMS = {'propext', 'Classical.choice', 'Quot.sound'}
FORBIDDEN_RE = re.compile(
    r'\bsorry\b|\badmit\b|^\s*axiom\s|native_decide|bv_decide|implemented_by|'
    r'\bunsafe\s|maxHeartbeats\s+0\b|@\[extern', re.M)


class Infra(Exception):
    """Infrastructure failure: exit 2, never a violation."""


def strip_lean_comments(src: str) -> str:
    # remove nested block comments and line comments (string literals in our
    # Lean sources never contain comment openers)
    out = []
    i, depth, n = 0, 0, len(src)
    while i < n:
        if src.startswith('/-', i):
            depth += 1
            i += 2
        elif depth and src.startswith('-/', i):
            depth -= 1
            i += 2
        elif depth:
            if src[i] == '\n':
                out.append('\n')
            i += 1
        elif src.startswith('--', i):
            while i < n and src[i] != '\n':
                i += 1
        else:
            out.append(src[i])
            i += 1
    return ''.join(out)


class Ctx:
    def __init__(self, pid: str, tier: str, seed: int, replay: Optional[str] = None):
        self.pid = pid
        self.tier = tier
        self.seed = seed
        self.replay = replay
        self.t0 = time.time()
        self.rng = random.Random(f'{pid}:{seed}')
        self.failures: list[dict] = []       # unlisted violations
        self.known_hits: list[dict] = []     # matched known findings
        self.proof: dict[str, Any] = {}
        self.cov: dict[str, Any] = {}
        self.assumptions: list[str] = []
        self.trusted_base: list[str] = [
            'Lean 4.33 kernel',
            'axioms allowed in property theorems: propext, Classical.choice, Quot.sound '
            '(checked by #print axioms on every run); no native_decide / bv_decide / sorry',
        ]
        self.level = 'proof'
        self._known = self._load_known()
        self.notes: list[str] = []

    # ------------------------------------------------------------------ util
    def quick(self) -> bool:
        return self.tier == 'quick'

    def budget(self, quick: int, thorough: int) -> int:
        return quick if self.quick() else thorough

    def log(self, *a):
        print(f'[{self.pid} {time.time() - self.t0:6.1f}s]', *a, flush=True)

    # ------------------------------------------------------------ known file
    def _load_known(self) -> list[dict]:
        p = os.path.join(VERIF, 'known_findings.json')
        if not os.path.exists(p):
            return []
        data = json.load(open(p))
        return [e for e in data.get('findings', []) if e.get('property') == self.pid]

    def _match_known(self, key: str) -> Optional[dict]:
        for e in self._known:
            if e.get('status', 'open') != 'open':
                continue   # "fixed: ..." entries suppress nothing
            if e.get('key') == key:
                return e
            kr = e.get('key_regex')
            if kr and re.fullmatch(kr, key, re.S):
                return e
        return None

    # ------------------------------------------------------------- reporting
    def fail(self, key: str, what: str, detail: Any, *, no_input: bool = False):
        """Record a property failure.  ``key`` identifies the specific input /
        call site (used for known-finding matching and de-duplication)."""
        k = self._match_known(key)
        rec = {'key': key, 'what': what, 'detail': detail, 'no_input': no_input}
        if k is not None and not no_input:
            if not any(h['key'] == key for h in self.known_hits):
                self.known_hits.append(rec | {'finding': k.get('what_fails', what)})
            return
        if not any(f['key'] == key for f in self.failures):
            self.failures.append(rec)

    def finish(self) -> int:
        wall = time.time() - self.t0
        for h in self.known_hits:
            print(f"KNOWN-FINDING: property={self.pid} {h['finding']} [key={h['key']!r}]")
        rc = 0
        if self.failures:
            rc = 1
            os.makedirs(os.path.join(VERIF, 'replays'), exist_ok=True)
            # one replay file per run, first failure first; concrete inputs before no-input ones
            fs = sorted(self.failures, key=lambda f: f['no_input'])
            h = hashlib.sha1(json.dumps([f['key'] for f in fs]).encode()).hexdigest()[:10]
            path = os.path.join('replays', f'{self.pid}-{h}.json')
            with open(os.path.join(VERIF, path), 'w') as f:
                json.dump({
                    'property': self.pid, 'tier': self.tier, 'seed': self.seed,
                    'replay_cmd': f'./check {self.pid} --replay {path}',
                    'failures': fs,
                }, f, indent=1, default=repr)
            all_no_input = all(f['no_input'] for f in fs)
            tail = ' no-failing-input-found' if all_no_input else ''
            for f in fs[:5]:
                self.log('FAIL', f['key'], '--', f['what'])
            print(f'VIOLATION property={self.pid} replay={path}{tail}')
        self._write_evidence(wall, len(self.failures))
        return rc

    def _write_evidence(self, wall: float, nviol: int):
        cov = dict(self.cov)
        if self.level == 'proof':
            cov.setdefault('obligations', self.proof.get('obligations', 0))
            cov.setdefault('discharged', self.proof.get('discharged', 0))
            cov.setdefault('checker_cmd', self.proof.get('checker_cmd', ''))
            cov['trusted_base'] = self.trusted_base
            cov['theorems'] = self.proof.get('theorems', {})
        cov.setdefault('known_findings_hit', [h['key'] for h in self.known_hits])
        if self.notes:
            cov['notes'] = self.notes
        ev = {
            'property_id': self.pid, 'tier': self.tier, 'seed': self.seed,
            'level': self.level, 'coverage': cov, 'assumptions': self.assumptions,
            'wall_s': round(wall, 2), 'violations': nviol,
        }
        os.makedirs(os.path.join(VERIF, 'evidence'), exist_ok=True)
        with open(os.path.join(VERIF, 'evidence', f'{self.pid}.json'), 'w') as f:
            json.dump(ev, f, indent=1, default=repr)

    # ------------------------------------------------------------------ lean
    def lake(self, args: Sequence[str], timeout: int = 1800, input: Optional[str] = None):
        try:
            return subprocess.run(['lake', *args], cwd=LEAN_DIR, capture_output=True,
                                  text=True, timeout=timeout, input=input)
        except subprocess.TimeoutExpired as e:
            raise Infra(f'lake {args} timed out') from e

    def lean_build(self, targets: Sequence[str]) -> tuple[bool, str]:
        # Several checks may run at once and share modules: two `lake build`s writing the same
        # .setup.json/.olean race (seen as "failed to load header ... unexpected end of input").
        # Builds are therefore serialised by a lock file; a failure that names no source location
        # (not a Lean error in a .lean file) is retried once.  A genuine proof break is a source
        # error and fails both times.
        import fcntl
        lock = open(os.path.join(LEAN_DIR, '.build.lock'), 'w')
        try:
            fcntl.flock(lock, fcntl.LOCK_EX)
            r = self.lake(['build', *targets])
            log = r.stdout + r.stderr
            if r.returncode != 0 and not re.search(r'error: \S+\.lean:\d+:\d+:', log):
                r = self.lake(['build', *targets])
                log = r.stdout + r.stderr
            return r.returncode == 0, log
        finally:
            fcntl.flock(lock, fcntl.LOCK_UN)
            lock.close()

    def lean_sources_audit(self) -> list[str]:
        """grep for forbidden constructs outside comments in every Lean source."""
        bad = []
        for root in ('EdbVerif', 'Driver'):
            for dp, _dn, fns in os.walk(os.path.join(LEAN_DIR, root)):
                for fn in fns:
                    if not fn.endswith('.lean'):
                        continue
                    p = os.path.join(dp, fn)
                    src = strip_lean_comments(open(p).read())
                    for m in FORBIDDEN_RE.finditer(src):
                        line = src.count('\n', 0, m.start()) + 1
                        bad.append(f'{os.path.relpath(p, LEAN_DIR)}:{line}: {m.group(0).strip()}')
        return bad

    def theorem_names(self, props_file: str) -> list[str]:
        """Names of all theorems in a Props file (fully qualified)."""
        src = strip_lean_comments(open(os.path.join(LEAN_DIR, props_file)).read())
        ns: list[str] = []
        out = []
        for line in src.splitlines():
            m = re.match(r'\s*namespace\s+(\S+)', line)
            if m:
                ns.append(m.group(1))
                continue
            m = re.match(r'\s*end\s+(\S+)', line)
            if m and ns and ns[-1] == m.group(1):
                ns.pop()
                continue
            m = re.match(r'\s*(?:private\s+|protected\s+)?theorem\s+([^\s:({\[]+)', line)
            if m:
                out.append('.'.join(ns + [m.group(1)]))
        return out

    def lean_axioms(self, module: str, theorems: Sequence[str]) -> dict[str, Optional[list[str]]]:
        """#print axioms for each theorem; None when the theorem is missing."""
        src = f'import {module}\n' + ''.join(f'#print axioms {t}\n' for t in theorems)
        with tempfile.NamedTemporaryFile('w', suffix='.lean', dir=LEAN_DIR, delete=False) as f:
            f.write(src)
            tmp = f.name
        try:
            r = self.lake(['env', 'lean', tmp])
        finally:
            os.unlink(tmp)
        out = r.stdout + r.stderr
        res: dict[str, Optional[list[str]]] = {t: None for t in theorems}
        for m in re.finditer(r"'([^']+)' depends on axioms: \[([^\]]*)\]", out, re.S):
            res[m.group(1)] = [a.strip() for a in m.group(2).replace('\n', ' ').split(',') if a.strip()]
        for m in re.finditer(r"'([^']+)' does not depend on any axioms", out):
            res[m.group(1)] = []
        return res

    def proof_stage(self, props_file: str, targets: Sequence[str],
                    gen_obligations: int = 0, required: Sequence[str] = ()) -> bool:
        """Build + audit.  Returns True when every obligation is discharged.
        On failure records what broke in ``self.proof['broken']`` (the caller
        then runs its failing-input search and finally calls
        :meth:`proof_broken_verdict`)."""
        module = props_file[:-5].replace('/', '.')
        thms = self.theorem_names(props_file)
        broken: list[str] = []
        ok, log = self.lean_build(list(targets))
        self.proof['build_log_tail'] = log[-3000:] if not ok else ''
        if not ok:
            # name the failing modules / theorems
            for m in re.finditer(r'error: (\S+\.lean):(\d+):\d+: (.*)', log):
                broken.append(f'{m.group(1)}:{m.group(2)}: {m.group(3)[:200]}')
            if not broken:
                broken.append('lake build failed: ' + log[-400:])
        thm_status: dict[str, Any] = {}
        if ok:
            ax = self.lean_axioms(module, thms)
            for t in thms:
                a = ax.get(t)
                if a is None:
                    broken.append(f'theorem {t}: not found / not checked')
                    thm_status[t] = 'missing'
                elif not set(a) <= ALLOWED_AXIOMS:
                    broken.append(f'theorem {t}: depends on axioms {a}')
                    thm_status[t] = {'axioms': a, 'ok': False}
                else:
                    thm_status[t] = {'axioms': a, 'ok': True}
            for t in required:
                if t not in thms:
                    broken.append(f'required theorem {t} is gone from {props_file}')
        bad = self.lean_sources_audit()
        for b in bad:
            broken.append('forbidden construct: ' + b)
        n_ok = sum(1 for v in thm_status.values() if isinstance(v, dict) and v['ok'])
        self.proof.update({
            'obligations': len(thms) + gen_obligations,
            'discharged': (n_ok + gen_obligations) if ok and not bad else 0,
            'checker_cmd': f'cd lean && lake build {" ".join(targets)} && '
                           f'lake env lean <(#print axioms of every theorem in {props_file})',
            'theorems': thm_status,
            'broken': broken,
        })
        if self.tier == 'thorough' and ok:
            r = self.lake(['env', 'leanchecker', module], timeout=3600)
            self.proof['leanchecker'] = 'ok' if r.returncode == 0 else (r.stdout + r.stderr)[-500:]
            if r.returncode != 0:
                broken.append('leanchecker rejected ' + module)
        return not broken

    def proof_broken_verdict(self):
        """Call after the failing-input search when proof_stage returned False
        and no concrete failing input was recorded."""
        if self.proof.get('broken') and not any(not f['no_input'] for f in self.failures):
            self.fail('proof-broken', 'proof obligation no longer checks',
                      {'broken': self.proof['broken'],
                       'build_log_tail': self.proof.get('build_log_tail', '')},
                      no_input=True)

    def driver(self, name: str, lines: Iterable[str], timeout: int = 3600) -> list[str]:
        """Pipe lines through `lake env lean --run Driver/<name>.lean`."""
        data = '\n'.join(lines) + '\n'
        r = self.lake(['env', 'lean', '--run', f'Driver/{name}.lean'], input=data, timeout=timeout)
        if r.returncode != 0:
            raise Infra(f'driver {name} failed: {r.stderr[-2000:]}')
        return r.stdout.split('\n')[:-1] if r.stdout.endswith('\n') else r.stdout.split('\n')


def main_run(mod_loader: Callable[[str], Any]):
    import argparse
    ap = argparse.ArgumentParser()
    ap.add_argument('pid')
    ap.add_argument('--tier', default=os.environ.get('VERIF_TIER', 'quick'),
                    choices=['quick', 'thorough'])
    ap.add_argument('--replay', default=None)
    a = ap.parse_args()
    seed = int(os.environ.get('VERIF_SEED', '0') or 0)
    ctx = Ctx(a.pid, a.tier, seed, a.replay)
    try:
        mod = mod_loader(a.pid)
        mod.run(ctx)
        rc = ctx.finish()
    except Infra as e:
        print(f'INFRA-ERROR {a.pid}: {e}', file=sys.stderr)
        rc = 2
    sys.exit(rc)
