"""Deterministic asyncio event loop for schedule exploration (C15/C16).

`DetLoop` is a real asyncio loop (subclass of ``asyncio.BaseEventLoop``) with

* a *virtual clock*: ``time()`` returns ``self.vtime``; it only moves when the
  driver calls :meth:`advance` / :meth:`fire_next_timer`;
* *no* ``run_forever``: the driver executes exactly ONE ready handle per call of
  :meth:`run_handle`, picking it itself (the PRNG of the harness), so every
  interleaving of the atomic sections between ``await``s is reachable and a run
  is replayable from the list of choices;
* timers (``call_later`` / ``call_at``) kept in the normal ``_scheduled`` heap;
  they fire in deadline order, when the driver decides to advance the clock.

Everything else (``create_task``, ``create_future``, ``call_soon`` and the
Task/Future machinery) is stock asyncio, so the code under test runs unchanged.
"""
from __future__ import annotations

import asyncio
import heapq
from asyncio import events
from typing import Any, Callable, List, Optional


class DetLoop(asyncio.BaseEventLoop):
    def __init__(self) -> None:
        super().__init__()
        self.vtime: float = 1000.0
        self.task_seq: int = 0
        self.on_task: Optional[Callable[[asyncio.Task, int], None]] = None
        self.errors: List[dict] = []          # what reached the loop's exception handler
        self.set_exception_handler(self._on_exc)
        self._entered = False

    # -------------------------------------------------------------- plumbing
    def time(self) -> float:              # virtual clock
        return self.vtime

    def _process_events(self, event_list):    # never used (no selector)
        pass

    def _write_to_self(self):                 # call_soon_threadsafe is not used
        pass

    def _on_exc(self, loop, context):
        self.errors.append(context)

    def enter(self) -> 'DetLoop':
        """Make this loop the *running* loop of the thread (so that
        ``asyncio.get_running_loop()`` inside the code under test finds it)."""
        events._set_running_loop(self)
        self._entered = True
        return self

    def leave(self) -> None:
        if self._entered:
            events._set_running_loop(None)
            self._entered = False
        # drop whatever is left without running it
        for h in list(self._ready):
            h.cancel()
        self._ready.clear()
        for h in list(self._scheduled):
            h.cancel()
        self._scheduled.clear()
        self.close()

    def create_task(self, coro, **kw):      # number tasks in creation order
        t = super().create_task(coro, **kw)
        self.task_seq += 1
        t._det_id = self.task_seq           # type: ignore[attr-defined]
        if self.on_task is not None:
            self.on_task(t, self.task_seq)
        return t

    # ----------------------------------------------------------- inspection
    def ready_handles(self) -> List[asyncio.Handle]:
        return [h for h in self._ready if not h._cancelled]

    def pending_timers(self) -> List[asyncio.TimerHandle]:
        return sorted((h for h in self._scheduled if not h._cancelled),
                      key=lambda h: h._when)

    @staticmethod
    def handle_task(h: asyncio.Handle) -> Optional[asyncio.Task]:
        """The task a ready handle will step, if it is a task step/wakeup."""
        t = getattr(h._callback, '__self__', None)
        return t if isinstance(t, asyncio.Task) else None

    @staticmethod
    def handle_name(h: asyncio.Handle) -> str:
        cb = h._callback
        t = getattr(cb, '__self__', None)
        if isinstance(t, asyncio.Task):
            return 'task:' + t.get_coro().cr_code.co_name
        return getattr(cb, '__name__', type(cb).__name__)

    # -------------------------------------------------------------- stepping
    def run_handle(self, h: asyncio.Handle) -> None:
        """Execute ONE ready handle (an atomic section of the program)."""
        self._ready.remove(h)
        if not h._cancelled:
            h._run()

    def advance(self, dt: float) -> None:
        """Move the clock without firing anything; never past the next timer."""
        ts = self.pending_timers()
        t = self.vtime + dt
        if ts:
            t = min(t, ts[0]._when)
        self.vtime = max(self.vtime, t)

    def fire_next_timer(self) -> Optional[asyncio.TimerHandle]:
        """Advance the clock to the earliest timer and move it to the ready
        list (exactly what ``_run_once`` does)."""
        while self._scheduled and self._scheduled[0]._cancelled:
            h = heapq.heappop(self._scheduled)
            h._scheduled = False
        if not self._scheduled:
            return None
        h = heapq.heappop(self._scheduled)
        h._scheduled = False
        self.vtime = max(self.vtime, h._when)
        self._ready.append(h)
        return h

    def idle(self) -> bool:
        return not self.ready_handles()
