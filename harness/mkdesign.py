"""Refresh the generated tables inside DESIGN.md (seeded changes):  python3 harness/mkdesign.py"""
import glob, json, os, re
V = os.path.dirname(os.path.dirname(os.path.abspath(__file__)))
NEEDS = json.load(open(os.path.join(V, 'seeded', 'needs.json')))
rows = ['| seed | property | confirmed | our check (quick tier) | what it needs to manifest |', '|---|---|---|---|---|']
for mp in sorted(glob.glob(os.path.join(V, 'seeded', '*', 'meta.json'))):
    m = json.load(open(mp))
    c = m.get('check', {})
    res = ('caught, concrete input' if m.get('caught_with_input') else
           'caught (no-failing-input-found)' if m.get('caught') else 'MISSED (exit %s)' % c.get('rc'))
    if m.get('history'):
        res += ' — ' + m['history']
    rows.append(f"| `{m['seed_id']}` | {m['property']} | {'yes' if m.get('confirmed') else 'NO'}"
                f"{' (58 pinned tests pass)' if m.get('pinned_tests_passed_with_patch') else ''} | {res} | {NEEDS.get(m['seed_id'], '')} |")
p = os.path.join(V, 'DESIGN.md')
s = open(p).read()
s = re.sub(r'<!-- SEEDTABLE-BEGIN -->.*?<!-- SEEDTABLE-END -->',
           '<!-- SEEDTABLE-BEGIN -->\n' + '\n'.join(rows) + '\n<!-- SEEDTABLE-END -->', s, flags=re.S)
kf = json.load(open(os.path.join(V, 'known_findings.json')))
by = {}
for e in kf['findings']:
    if e['status'] == 'open':
        by.setdefault(e['property'], []).append(e)
frows = ['| property | open findings | examples (what fails) |', '|---|---|---|']
for pid in sorted(by):
    es = by[pid]
    ex = '; '.join(sorted({e['what_fails'][:110].replace('|', '\\|').replace('\n', ' ') for e in es})[:4])
    frows.append(f"| {pid} | {len(es)} keys | {ex} |")
s = re.sub(r'<!-- FINDINGS-BEGIN -->.*?<!-- FINDINGS-END -->',
           lambda _m: '<!-- FINDINGS-BEGIN -->\n' + '\n'.join(frows) + '\n<!-- FINDINGS-END -->', s, flags=re.S)
open(p, 'w').write(s)
print(len(rows) - 2, 'seeds;', sum(len(v) for v in by.values()), 'open finding keys')
