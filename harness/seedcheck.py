#!/usr/bin/env python3
"""seedcheck.py <seed-worktree> <Cxx> <seed-id> [--tier quick] [--skip-tests]

Confirms a seeded change (patch.diff + demo.py produced by an independent agent in its own
worktree) and runs our check against it:
  1. worktree clean + demo passes without the patch
  2. patch applies; pinned test suite (tests/common, test_profiling, test_sourcecode) still has 58 passes
  3. demo fails with the patch
  4. patch applied to /repo -> ./check Cxx -> reverted immediately
Stores everything under /verif/seeded/<seed-id>/ (patch.diff, demo.py, README.md, meta.json).
"""
import json
import os
import re
import shutil
import subprocess
import sys
import time

VERIF = os.path.dirname(os.path.dirname(os.path.abspath(__file__)))


def sh(cmd, cwd=None, env=None, timeout=3600):
    r = subprocess.run(cmd, shell=True, cwd=cwd, capture_output=True, text=True, env=env, timeout=timeout)
    return r.returncode, (r.stdout + r.stderr)


def main():
    wt, pid, sid = sys.argv[1:4]
    tier = 'quick'
    if '--tier' in sys.argv:
        tier = sys.argv[sys.argv.index('--tier') + 1]
    skip_tests = '--skip-tests' in sys.argv
    seed = os.path.join(wt, '_seed')
    out = os.path.join(VERIF, 'seeded', sid)
    os.makedirs(out, exist_ok=True)
    for f in ('patch.diff', 'demo.py', 'README.md'):
        if os.path.exists(os.path.join(seed, f)):
            shutil.copy(os.path.join(seed, f), os.path.join(out, f))
    meta = {'property': pid, 'seed_id': sid, 'confirmed_at': time.strftime('%Y-%m-%dT%H:%M:%S'), 'ran': []}
    env = dict(os.environ, PYTHONPATH=wt, PYTHONDONTWRITEBYTECODE='1')

    if not os.path.isdir(wt):
        # the seeding worktree is gone: re-run only our check, keep the recorded confirmation
        old = json.load(open(os.path.join(out, 'meta.json')))
        meta.update({k: old[k] for k in ('demo_without_patch_rc', 'demo_with_patch_rc', 'demo_with_patch_tail',
                                         'pinned_tests_passed_with_patch', 'pinned_tests_tail', 'history')
                     if k in old})
        meta['patch_applies'] = True
        meta['confirmed'] = bool(old.get('confirmed'))
        return run_check(meta, out, pid, sid, tier)
    sh('git checkout -- . ', cwd=wt)
    rc0, o0 = sh(f'/venv/bin/python {seed}/demo.py', cwd=seed, env=env, timeout=900)
    meta['demo_without_patch_rc'] = rc0
    rc, o = sh(f'git apply {out}/patch.diff', cwd=wt)
    meta['patch_applies'] = rc == 0
    if rc != 0:
        meta['error'] = o[-500:]
    rc1, o1 = sh(f'/venv/bin/python {seed}/demo.py', cwd=seed, env=env, timeout=900)
    meta['demo_with_patch_rc'] = rc1
    meta['demo_with_patch_tail'] = o1[-600:]
    if not skip_tests and meta['patch_applies']:
        rc, o = sh('/venv/bin/python -m pytest -q -p no:cacheprovider --timeout=900 '
                   '--continue-on-collection-errors tests/common tests/test_profiling.py '
                   'tests/test_sourcecode.py 2>&1 | tail -3', cwd=wt, env=env)
        m = re.search(r'(\d+) passed', o)
        meta['pinned_tests_passed_with_patch'] = int(m.group(1)) if m else None
        meta['pinned_tests_tail'] = o[-300:]
    sh('git checkout -- .', cwd=wt)
    meta['confirmed'] = bool(meta['patch_applies'] and rc0 == 0 and rc1 != 0 and
                             (skip_tests or meta.get('pinned_tests_passed_with_patch', 0) >= 58))

    return run_check(meta, out, pid, sid, tier)


def run_check(meta, out, pid, sid, tier):
    # our check against the change.  Default: a scratch worktree of /repo HEAD with the patch applied, handed to
    # ./check through EDB_VERIF_REPO (other work on /repo is not disturbed).  --in-repo applies it to /repo itself
    # (git -C /repo apply; ./check; git -C /repo checkout -- .), which is how the checks are meant to be used.
    if meta['patch_applies']:
        in_repo = '--in-repo' in sys.argv
        ev = os.path.join(VERIF, 'evidence', f'{pid}.json')
        ev_saved = open(ev).read() if os.path.exists(ev) else None
        scratch = f'/tmp/seedrun-{sid}'
        try:
            if in_repo:
                rc, o = sh('git status --porcelain', cwd='/repo')
                if o.strip():
                    print('/repo is not clean; refusing', o)
                    sys.exit(2)
                target, cenv = '/repo', dict(os.environ)
            else:
                sh(f'git -C /repo worktree remove --force {scratch}')
                rc, o = sh(f'git -C /repo worktree add -q --detach {scratch} HEAD')
                target, cenv = scratch, dict(os.environ, EDB_VERIF_REPO=scratch)
            rc, o = sh(f'git apply {out}/patch.diff', cwd=target)
            meta['patch_applies_on_head'] = rc == 0
            if rc != 0:
                meta['check'] = {'rc': None, 'violation_lines': [], 'tail': 'patch does not apply on current HEAD: ' + o[-300:]}
            else:
                t = time.time()
                rc, o = sh(f'./check {pid} --tier {tier}', cwd=VERIF, timeout=7200, env=cenv)
                meta['check'] = {'tier': tier, 'rc': rc, 'wall_s': round(time.time() - t, 1),
                                 'violation_lines': [l for l in o.splitlines() if l.startswith('VIOLATION')],
                                 'tail': o[-1500:]}
                meta['ran'].append(('git -C /repo apply patch.diff && ./check %s --tier %s; git -C /repo checkout -- .' % (pid, tier))
                                   if in_repo else
                                   ('scratch worktree of /repo HEAD + patch.diff; EDB_VERIF_REPO=<scratch> ./check %s --tier %s' % (pid, tier)))
                for l in meta['check']['violation_lines']:
                    m = re.search(r'replay=(\S+)', l)
                    if m and os.path.exists(os.path.join(VERIF, m.group(1))):
                        shutil.copy(os.path.join(VERIF, m.group(1)), os.path.join(out, 'replay.json'))
        finally:
            if in_repo:
                sh('git checkout -- .', cwd='/repo')
            else:
                sh(f'git -C /repo worktree remove --force {scratch}')
            if ev_saved is not None:        # evidence must describe the unchanged tree
                open(ev, 'w').write(ev_saved)
    meta['caught'] = bool(meta.get('check', {}).get('rc') == 1 and meta['check']['violation_lines'])
    meta['caught_with_input'] = meta['caught'] and not any(
        'no-failing-input-found' in l for l in meta['check']['violation_lines'])
    json.dump(meta, open(os.path.join(out, 'meta.json'), 'w'), indent=1)
    print(json.dumps({k: meta[k] for k in ('confirmed', 'caught', 'caught_with_input')}
                     | {'check_rc': meta.get('check', {}).get('rc'),
                        'viol': meta.get('check', {}).get('violation_lines')}))


if __name__ == '__main__':
    main()
