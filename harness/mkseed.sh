#!/bin/bash
# mkseed.sh <name>: scratch git worktree of /repo for a mutation-seeding agent
set -e
d=/tmp/seed-$1
git -C /repo worktree remove --force $d 2>/dev/null || true
rm -rf $d
git -C /repo worktree add -q --detach $d HEAD
echo $d
