// stub of the `bigdecimal` crate: only what tokenizer.rs / validation.rs use.
// Numeric *values* of decimal / bigint literals are NOT faithful (text is kept).
use std::str::FromStr;
#[derive(Debug, Clone, PartialEq)]
pub struct BigDecimal(pub String);
#[derive(Debug)]
pub struct ParseBigDecimalError;
impl std::fmt::Display for ParseBigDecimalError { fn fmt(&self, f: &mut std::fmt::Formatter<'_>) -> std::fmt::Result { write!(f, "parse error") } }
impl FromStr for BigDecimal {
    type Err = ParseBigDecimalError;
    fn from_str(s: &str) -> Result<Self, Self::Err> { Ok(BigDecimal(s.to_string())) }
}
pub mod num_bigint {
    #[derive(Debug, Clone, PartialEq)]
    pub struct BigInt(pub String);
    impl BigInt { pub fn to_str_radix(&self, _r: u32) -> String { self.0.clone() } }
    pub trait ToBigInt { fn to_bigint(&self) -> Option<BigInt>; }
    impl ToBigInt for super::BigDecimal { fn to_bigint(&self) -> Option<BigInt> { Some(BigInt(self.0.clone())) } }
}
