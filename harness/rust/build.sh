#!/bin/bash
# Builds harness/rust/build/edb_lex from the tokenizer sources in $REPO (default /repo)
# with plain rustc and the stub crates in this directory.  ~2 s.
set -e
cd "$(dirname "$0")"
REPO="${EDB_VERIF_REPO:-/repo}"
mkdir -p build
export PATH="$HOME/.cargo/bin:/root/.cargo/bin:$PATH"
STAMP=build/.stubs.stamp
if [ ! -f "$STAMP" ] || [ bigdecimal.rs -nt "$STAMP" ] || [ phf.rs -nt "$STAMP" ] || [ thiserror.rs -nt "$STAMP" ]; then
  for c in bigdecimal memchr phf unicode_width; do
    rustc --edition 2021 -A warnings --crate-type rlib --crate-name $c $c.rs -o build/lib$c.rlib
  done
  rustc --edition 2021 -A warnings --crate-type proc-macro --crate-name thiserror thiserror.rs -o build/libthiserror.so
  touch "$STAMP"
fi
sed "s#/repo/#$REPO/#g" main.rs > build/main.rs
rustc --edition 2021 -A warnings -O build/main.rs -L build \
  --extern bigdecimal=build/libbigdecimal.rlib --extern memchr=build/libmemchr.rlib \
  --extern phf=build/libphf.rlib --extern unicode_width=build/libunicode_width.rlib \
  --extern thiserror=build/libthiserror.so -o build/edb_lex
