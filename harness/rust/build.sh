#!/bin/bash
# Builds harness/rust/build/edb_lex from the tokenizer sources in $REPO (default /repo)
# with plain rustc and the stub crates in this directory.  ~2 s.
set -e
cd "$(dirname "$0")"
REPO="${EDB_VERIF_REPO:-/repo}"
mkdir -p build
export PATH="$HOME/.cargo/bin:/root/.cargo/bin:$PATH"
STAMP=build/.stubs.stamp
if [ ! -f "$STAMP" ] || [ bigdecimal.rs -nt "$STAMP" ] || [ phf.rs -nt "$STAMP" ] || [ thiserror.rs -nt "$STAMP" ]; then
  for c in bigdecimal memchr phf unicode_width; do
    rustc --edition 2021 -A warnings --crate-type rlib --crate-name $c $c.rs -o build/lib$c.rlib
  done
  rustc --edition 2021 -A warnings --crate-type proc-macro --crate-name thiserror thiserror.rs -o build/libthiserror.so
  touch "$STAMP"
fi
# one binary per source tree (scratch worktrees of seeded changes must not share the binary of /repo),
# built under a private name and moved into place atomically so that concurrent checks do not race
if [ "$REPO" = "/repo" ]; then OUT=build/edb_lex; else OUT=build/edb_lex-$(printf %s "$REPO" | md5sum | cut -c1-10); fi
TMP=build/tmp_$$
sed "s#/repo/#$REPO/#g" main.rs > $TMP.rs
rustc --edition 2021 -A warnings -O $TMP.rs --crate-name edb_lex -L build \
  --extern bigdecimal=build/libbigdecimal.rlib --extern memchr=build/libmemchr.rlib \
  --extern phf=build/libphf.rlib --extern unicode_width=build/libunicode_width.rlib \
  --extern thiserror=build/libthiserror.so -o $TMP.bin
mv -f $TMP.bin $OUT
rm -f $TMP.rs
