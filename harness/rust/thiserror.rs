extern crate proc_macro;
use proc_macro::{TokenStream, TokenTree};
#[proc_macro_derive(Error, attributes(error, from, source, backtrace))]
pub fn derive_error(input: TokenStream) -> TokenStream {
    let mut name = None;
    let mut it = input.into_iter();
    while let Some(tt) = it.next() {
        if let TokenTree::Ident(id) = &tt {
            let s = id.to_string();
            if s == "enum" || s == "struct" {
                if let Some(TokenTree::Ident(n)) = it.next() { name = Some(n.to_string()); }
                break;
            }
        }
    }
    let name = name.expect("type name");
    format!("impl std::fmt::Display for {n} {{ fn fmt(&self, f: &mut std::fmt::Formatter<'_>) -> std::fmt::Result {{ write!(f, \"{{:?}}\", self) }} }} impl std::error::Error for {n} {{}}", n = name).parse().unwrap()
}
