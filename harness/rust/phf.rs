pub struct Set<T: 'static>(pub &'static [T]);
impl Set<&'static str> {
    pub fn contains(&self, k: &str) -> bool { self.0.iter().any(|x| *x == k) }
    pub fn get_key(&self, k: &str) -> Option<&&'static str> { self.0.iter().find(|x| **x == k) }
    pub fn iter(&self) -> std::slice::Iter<'static, &'static str> { self.0.iter() }
}
#[macro_export]
macro_rules! phf_set { ($($e:expr),* $(,)?) => { $crate::Set(&[$($e),*]) }; }
