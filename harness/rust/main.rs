// edb_lex: the REAL EdgeQL tokenizer (sources pulled from /repo on every build),
// behind a line protocol.  Input: one hex-encoded UTF-8 string per line.
// Output: one line per input; tokens separated by ';', each
//   Kind,<text hex>,<value kind>,<value hex>,<start offset>,<end offset>
// a tokenizer/validation error ends the line with  ERR,<message hex>,<start>,<end>
#[path = "/repo/edb/edgeql-parser/src/keywords.rs"] pub mod keywords;
#[path = "/repo/edb/edgeql-parser/src/position.rs"] pub mod position;
#[path = "/repo/edb/edgeql-parser/src/tokenizer.rs"] pub mod tokenizer;
#[path = "/repo/edb/edgeql-parser/src/validation.rs"] pub mod validation;
#[path = "/repo/edb/edgeql-parser/src/helpers/mod.rs"] pub mod helpers;
use std::io::{self, BufRead, Write};

fn hex(b: &[u8]) -> String {
    let mut s = String::with_capacity(b.len() * 2);
    for x in b { s.push_str(&format!("{:02x}", x)); }
    s
}
fn unhex(s: &str) -> Option<Vec<u8>> {
    let s = s.trim();
    if s.len() % 2 != 0 { return None; }
    (0..s.len()).step_by(2).map(|i| u8::from_str_radix(&s[i..i + 2], 16).ok()).collect()
}

fn main() {
    let stdin = io::stdin();
    let stdout = io::stdout();
    let mut out = io::BufWriter::new(stdout.lock());
    for line in stdin.lock().lines() {
        let line = line.unwrap();
        let bytes = match unhex(&line) { Some(b) => b, None => { writeln!(out, "BADHEX").unwrap(); continue; } };
        let text = match String::from_utf8(bytes) { Ok(t) => t, Err(_) => { writeln!(out, "BADUTF8").unwrap(); continue; } };
        let mut parts: Vec<String> = Vec::new();
        let t = tokenizer::Tokenizer::new(&text).validated_values().with_eof();
        for tok in t {
            match tok {
                Ok(t) => {
                    let (vk, vv) = match &t.value {
                        None => ("none", String::new()),
                        Some(tokenizer::Value::String(s)) => ("str", hex(s.as_bytes())),
                        Some(tokenizer::Value::Int(i)) => ("int", hex(i.to_string().as_bytes())),
                        Some(tokenizer::Value::Float(f)) => ("float", hex(format!("{:?}", f).as_bytes())),
                        Some(tokenizer::Value::Bytes(b)) => ("bytes", hex(b)),
                        Some(tokenizer::Value::BigInt(s)) => ("bigint", hex(s.as_bytes())),
                        Some(tokenizer::Value::Decimal(d)) => ("decimal", hex(format!("{:?}", d).as_bytes())),
                    };
                    parts.push(format!("{:?},{},{},{},{},{}", t.kind, hex(t.text.as_bytes()), vk, vv, t.span.start, t.span.end));
                }
                Err(e) => { parts.push(format!("ERR,{},{},{}", hex(e.message.as_bytes()), e.span.start, e.span.end)); break; }
            }
        }
        writeln!(out, "{}", parts.join(";")).unwrap();
        out.flush().unwrap();
    }
}
