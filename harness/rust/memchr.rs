pub mod memmem {
    pub fn find(haystack: &[u8], needle: &[u8]) -> Option<usize> {
        if needle.is_empty() { return Some(0); }
        haystack.windows(needle.len()).position(|w| w == needle)
    }
}
