pub trait UnicodeWidthStr { fn width(&self) -> usize; }
impl UnicodeWidthStr for str { fn width(&self) -> usize { self.chars().count() } }
